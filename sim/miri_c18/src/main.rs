//! C18 thread scenario under Miri's scheduler. Miri is a deterministic interpreter with its own
//! seeded, *pre-emptive* thread scheduler (-Zmiri-preemption-rate, -Zmiri-seed / -Zmiri-many-seeds):
//! unlike the baton scheduler inside csim, it can switch threads in the middle of a library call,
//! so state shared between threads inside `sample()` (statics, atomics, lazily initialised
//! tables) is exercised. K threads each seed their own thread-local generator and sample their
//! own objects and shared (Sync) objects of all 13 laws, mutating their own objects in between;
//! every thread's stream must equal the single-threaded run of the same script.
use compute::distributions::*;
use std::sync::Arc;

struct Shared {
    normal: Normal,
    gamma: Gamma,
    beta: Beta,
    chi: ChiSquared,
    t: T,
    pareto: Pareto,
    gumbel: Gumbel,
    expo: Exponential,
    unif: Uniform,
    dunif: DiscreteUniform,
    pois_small: Poisson,
    pois_large: Poisson,
    binom_inv: Binomial,
    binom_btpe: Binomial,
    bern: Bernoulli,
}

fn shared() -> Shared {
    Shared {
        normal: Normal::new(1., 2.),
        gamma: Gamma::new(0.7, 2.),
        beta: Beta::new(2., 0.5),
        chi: ChiSquared::new(3),
        t: T::new(2.5),
        pareto: Pareto::new(3., 1.),
        gumbel: Gumbel::new(0., 1.),
        expo: Exponential::new(2.),
        unif: Uniform::new(-1., 1.),
        dunif: DiscreteUniform::new(-3, 12),
        pois_small: Poisson::new(3.7),
        pois_large: Poisson::new(42.5),
        binom_inv: Binomial::new(25, 0.2),
        binom_btpe: Binomial::new(400, 0.3),
        bern: Bernoulli::new(0.3),
    }
}

fn script(tid: usize, sh: &Shared, rounds: usize) -> Vec<u64> {
    alea::sim::reset(0x5eed_0000 + tid as u64);
    alea::set_seed(1000 + 17 * tid as u64);
    let f = tid as f64;
    let mut out = Vec::new();
    let mut own_b = Binomial::new(20 + tid as u64, 0.15 + 0.1 * f);
    let mut own_b2 = Binomial::new(300 + 50 * tid as u64, 0.4);
    let mut own_p = Poisson::new(2.5 + f);
    let mut own_p2 = Poisson::new(10.25 + 0.5 * f);
    let mut own_g = Gamma::new(0.4 + f, 1.);
    let mut own_n = Normal::new(f, 1. + f);
    for r in 0..rounds {
        let mut push = |x: f64| out.push(x.to_bits());
        push(own_b.sample());
        push(sh.binom_inv.sample());
        push(own_p.sample());
        push(sh.pois_small.sample());
        push(own_b2.sample());
        push(sh.binom_btpe.sample());
        push(own_p2.sample());
        push(sh.pois_large.sample());
        push(own_g.sample());
        push(sh.gamma.sample());
        push(own_n.sample());
        push(sh.normal.sample());
        push(sh.beta.sample());
        push(sh.chi.sample());
        push(sh.t.sample());
        push(sh.pareto.sample());
        push(sh.gumbel.sample());
        push(sh.expo.sample());
        push(sh.unif.sample());
        push(sh.dunif.sample());
        push(sh.bern.sample());
        // mutate own objects between rounds
        own_b.set_n(21 + tid as u64 + r as u64).set_p(0.2 + 0.05 * ((r + tid) % 5) as f64);
        own_b2.set_p(0.35 + 0.01 * ((r + 2 * tid) % 7) as f64);
        own_p.set_lambda(1.5 + 0.75 * ((r + tid) % 6) as f64);
        own_p2.set_lambda(10.0 + 0.25 * ((3 * r + tid) % 9) as f64);
        own_g.set_alpha(0.3 + 0.45 * ((r + tid) % 4) as f64);
        own_n.set_sigma(0.5 + r as f64);
    }
    out.push(alea::get_seed());
    out
}

fn main() {
    let k = 3;
    let rounds = 6;
    let sh = Arc::new(shared());
    let reference: Vec<Vec<u64>> = (0..k).map(|tid| script(tid, &sh, rounds)).collect();
    let handles: Vec<_> = (0..k)
        .map(|tid| {
            let sh = sh.clone();
            std::thread::spawn(move || script(tid, &sh, rounds))
        })
        .collect();
    let mut bad = None;
    for (tid, h) in handles.into_iter().enumerate() {
        let got = h.join().expect("thread panicked");
        if got != reference[tid] && bad.is_none() {
            let pos = got.iter().zip(&reference[tid]).position(|(a, b)| a != b).unwrap_or(0);
            bad = Some((tid, pos, pos % 21));
        }
    }
    // and once more on the main thread afterwards: nothing the threads did may linger
    let again = script(0, &sh, rounds);
    if again != reference[0] && bad.is_none() {
        bad = Some((0, 0, 99));
    }
    if let Some((tid, pos, slot)) = bad {
        eprintln!("C18-MIRI VIOLATION thread {} value {} (slot {} of the round) differs from the single-threaded run of the same script", tid, pos, slot);
        std::process::exit(1);
    }
    println!("MIRI-C18 OK threads={} rounds={} samples_per_thread={}", k, rounds, rounds * 21);
}
