//! C04 exact cross-check under Miri: every element-wise operator/map form on Vector and Matrix
//! at every length 0..=40. Miri tracks initialisation per byte, so reading a result element the
//! kernel never wrote (the kernels write into `set_len` buffers) is reported exactly, whatever
//! the allocator would have handed out. Every result element is read and, for the correctly
//! rounded operations, compared with the scalar operation. Usage: miri_c04 [--only <kind> <n>]
use compute::linalg::*;
use std::hint::black_box;

fn vd(r: &Vector) -> &[f64] {
    &r.v
}
fn md(r: &Matrix) -> &[f64] {
    assert_eq!(r.nrows * r.ncols, r.data.len());
    &r.data.v
}

fn announce(kind: &str, n: usize) {
    eprintln!("CELL {} {}", kind, n);
}

fn eq(a: f64, b: f64) -> bool {
    (a.is_nan() && b.is_nan()) || a.to_bits() == b.to_bits()
}

fn check_exact(kind: &str, n: usize, got: &[f64], want: impl Fn(usize) -> f64) {
    assert_eq!(got.len(), n, "{} n={}: length {}", kind, n, got.len());
    for i in 0..n {
        let g = got[i]; // the read Miri checks for initialisation
        let w = want(i);
        assert!(eq(g, w), "{} n={} position {}: got {:e}, scalar operation gives {:e}", kind, n, i, g, w);
    }
}

/// reads every element (initialisation check) and requires it to be within 1e-9 relative of the
/// reference (Miri perturbs the last bits of transcendental functions on purpose)
fn check_close(kind: &str, n: usize, got: &[f64], want: impl Fn(usize) -> f64) {
    assert_eq!(got.len(), n, "{} n={}: length {}", kind, n, got.len());
    for i in 0..n {
        let g = got[i];
        let w = want(i);
        let ok = (g.is_nan() && w.is_nan()) || g == w || (g - w).abs() <= 1e-9 * w.abs().max(1e-300);
        assert!(ok, "{} n={} position {}: got {:e}, reference {:e}", kind, n, i, g, w);
    }
}

macro_rules! bin_forms {
    ($kind:expr, $only:expr, $n:expr, $a:expr, $b:expr, $s:expr, $mk:expr, $data:expr, $op:tt, $name:expr) => {{
        let (a, b, s, n) = ($a, $b, $s, $n);
        let k = |suffix: &str| format!("{}{}.{}", $kind, $name, suffix);
        macro_rules! cell {
            ($suffix:expr, $res:expr, $want:expr) => {{
                let kk = k($suffix);
                if $only.as_ref().map_or(true, |o: &String| *o == kk) {
                    announce(&kk, n);
                    let r = $res;
                    check_exact(&kk, n, $data(&r), $want);
                }
            }};
        }
        cell!("vv", $mk(a) $op $mk(b), |i| black_box(a[i]) $op black_box(b[i]));
        cell!("rr", &$mk(a) $op &$mk(b), |i| black_box(a[i]) $op black_box(b[i]));
        cell!("vr", $mk(a) $op &$mk(b), |i| black_box(a[i]) $op black_box(b[i]));
        cell!("rv", &$mk(a) $op $mk(b), |i| black_box(a[i]) $op black_box(b[i]));
        cell!("vs", $mk(a) $op s, |i| black_box(a[i]) $op black_box(s));
        cell!("rs", &$mk(a) $op s, |i| black_box(a[i]) $op black_box(s));
        cell!("sv", s $op $mk(a), |i| black_box(s) $op black_box(a[i]));
        cell!("sr", s $op &$mk(a), |i| black_box(s) $op black_box(a[i]));
    }};
}

macro_rules! assign_forms {
    ($kind:expr, $only:expr, $n:expr, $a:expr, $b:expr, $s:expr, $mk:expr, $data:expr, $op:tt, $sop:tt, $name:expr) => {{
        let (a, b, s, n) = ($a, $b, $s, $n);
        for (suffix, which) in [("av", 0), ("ar", 1), ("as", 2)] {
            let kk = format!("{}{}.{}", $kind, $name, suffix);
            if $only.as_ref().map_or(true, |o: &String| *o == kk) {
                announce(&kk, n);
                let mut x = $mk(a);
                match which {
                    0 => x $op $mk(b),
                    1 => x $op &$mk(b),
                    _ => x $op s,
                }
                if which == 2 {
                    check_exact(&kk, n, $data(&x), |i| black_box(a[i]) $sop black_box(s));
                } else {
                    check_exact(&kk, n, $data(&x), |i| black_box(a[i]) $sop black_box(b[i]));
                }
            }
        }
    }};
}

macro_rules! map_forms {
    ($kind:expr, $only:expr, $n:expr, $a:expr, $mk:expr, $data:expr, exact: [$($e:ident),*], close: [$($c:ident),*]) => {{
        let (a, n) = ($a, $n);
        $(
            let kk = format!("{}map.{}", $kind, stringify!($e));
            if $only.as_ref().map_or(true, |o: &String| *o == kk) {
                announce(&kk, n);
                let r = $mk(a).$e();
                check_exact(&kk, n, $data(&r), |i| black_box(a[i]).$e());
            }
        )*
        $(
            let kk = format!("{}map.{}", $kind, stringify!($c));
            if $only.as_ref().map_or(true, |o: &String| *o == kk) {
                announce(&kk, n);
                let r = $mk(a).$c();
                check_close(&kk, n, $data(&r), |i| black_box(a[i]).$c());
            }
        )*
        for e in [-2i32, -1, 0, 1, 2, 3, 4, 5] {
            let kk = format!("{}powi.{}", $kind, e);
            if $only.as_ref().map_or(true, |o: &String| *o == kk) {
                announce(&kk, n);
                let r = $mk(a).powi(e);
                check_close(&kk, n, $data(&r), |i| black_box(a[i]).powi(black_box(e)));
            }
        }
        for e in [2.0f64, 3.0, 0.5, -1.5, 2.5, 0.0] {
            let kk = format!("{}powf.{}", $kind, e);
            if $only.as_ref().map_or(true, |o: &String| *o == kk) {
                announce(&kk, n);
                let r = $mk(a).powf(e);
                check_close(&kk, n, $data(&r), |i| black_box(a[i]).powf(black_box(e)));
            }
        }
    }};
}

fn main() {
    let args: Vec<String> = std::env::args().collect();
    let (only, only_n): (Option<String>, Option<usize>) = if args.len() >= 4 && args[1] == "--only" {
        (Some(args[2].clone()), args[3].parse().ok())
    } else {
        (None, None)
    };
    let mut cells = 0u64;
    for n in 0..=40usize {
        if only_n.map_or(false, |k| k != n) {
            continue;
        }
        // deterministic, sign-mixed, includes zeros and a special or two
        let a: Vec<f64> = (0..n).map(|i| match i % 7 { 0 => 0.0, 1 => -0.0, 2 => 1.5 + i as f64, 3 => -(0.37 * i as f64) - 0.25, 4 => 0.87, 5 => f64::INFINITY, _ => 2.17 }).collect();
        let b: Vec<f64> = (0..n).map(|i| match i % 5 { 0 => 3.0, 1 => -0.5, 2 => 0.0, 3 => 1.27 + i as f64 * 0.01, _ => f64::NAN }).collect();
        let s = 1.75f64;
        let rows = if n == 0 { 0 } else { (1..=n).filter(|d| n % d == 0).nth(n % 3 % (1..=n).filter(|d| n % d == 0).count()).unwrap_or(1) };
        let mkv = |d: &Vec<f64>| Vector::new(d.clone());
        let mkm = |d: &Vec<f64>| if d.is_empty() { Matrix::empty() } else { Matrix::new(d.clone(), rows as i32, (d.len() / rows) as i32) };
        macro_rules! both {
            ($op:tt, $aop:tt, $name:expr) => {{
                bin_forms!("V", only, n, &a, &b, s, mkv, vd, $op, $name);
                bin_forms!("M", only, n, &a, &b, s, mkm, md, $op, $name);
                assign_forms!("V", only, n, &a, &b, s, mkv, vd, $aop, $op, $name);
                assign_forms!("M", only, n, &a, &b, s, mkm, md, $aop, $op, $name);
            }};
        }
        both!(+, +=, "add");
        both!(-, -=, "sub");
        both!(*, *=, "mul");
        both!(/, /=, "div");
        // negation
        for (kk, isv) in [("Vneg".to_string(), true), ("Mneg".to_string(), false)] {
            if only.as_ref().map_or(true, |o| *o == kk) {
                announce(&kk, n);
                if isv {
                    let r = -mkv(&a);
                    check_exact(&kk, n, &r.v, |i| -black_box(a[i]));
                } else {
                    let r = -mkm(&a);
                    check_exact(&kk, n, &r.data.v, |i| -black_box(a[i]));
                }
            }
        }
        map_forms!("V", only, n, &a, mkv, vd,
            exact: [sqrt, abs, floor, ceil, recip, round, signum],
            close: [ln, ln_1p, log10, log2, exp, exp2, exp_m1, sin, cos, tan, sinh, cosh, tanh, asin, acos, atan, asinh, acosh, atanh, cbrt, to_radians, to_degrees]);
        map_forms!("M", only, n, &a, mkm, md,
            exact: [sqrt, abs, floor, ceil, recip, round, signum],
            close: [ln, ln_1p, log10, log2, exp, exp2, exp_m1, sin, cos, tan, sinh, cosh, tanh, asin, acos, atan, asinh, acosh, atanh, cbrt, to_radians, to_degrees]);
        // reductions read their whole input; results are read here
        if only.is_none() || only.as_deref() == Some("reductions") {
            announce("reductions", n);
            let f: Vec<f64> = a.iter().map(|x| if x.is_finite() { *x } else { 1.0 }).collect();
            let g: Vec<f64> = b.iter().map(|x| if x.is_finite() { *x } else { 2.0 }).collect();
            let mut acc = sum(&f) + prod(&f) + dot(&f, &g) + norm(&f);
            if n > 0 {
                acc += logsumexp(&f) + logmeanexp(&f) + inf_norm(&f, rows) + mkm(&f).inf_norm();
            }
            assert!(black_box(acc).is_finite() || acc.is_nan() || acc.is_infinite());
        }
        cells += 1;
    }
    println!("MIRI-C04 OK lengths={} (all element-wise forms and maps on Vector and Matrix)", cells);
}
