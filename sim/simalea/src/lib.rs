//! sim-alea: drop-in replacement for `alea` 0.2.2 used only inside the csim simulator.
//!
//! * `Rng` and every free function have the same signature and the same arithmetic as
//!   `alea` 0.2.2 (wyrand step, `f64 = (u64 >> 11) * 2^-53`, Lemire ranges, ...).
//! * The one thing that is *removed* is the hidden clock: the real crate seeds each thread's
//!   generator from `Instant::now()` hashed with the thread id on first use.  Here the initial
//!   state of a never-seeded thread is supplied by the simulator (`sim::set_thread_init`).
//! * The one thing that is *added* is the `sim` module: a per-thread seam around the raw
//!   `u64()` output of the thread-local generator (draw counter, draw budget, forced outputs,
//!   trace ring).  With the seam untouched the output stream is bit-identical to real `alea`
//!   (checked by `csim selftest alea` against vectors produced by the real crate).
//!
//! Nothing in here allocates, reads a clock, or touches a lock.

use std::cell::Cell;

#[derive(Debug)]
/// Random number generator (verbatim from alea 0.2.2, minus `new()`'s clock).
pub struct Rng(Cell<u64>);

const CF64: f64 = 1.0 / ((1u64 << 53) as f64);

/// Methods that derive from `self.u64()`; expanded for both the plain `Rng` and the
/// thread-local hooked generator so that every derived function goes through the seam.
macro_rules! derived_methods {
    () => {
        #[inline]
        pub fn u32(&self) -> u32 {
            self.u64() as u32
        }

        #[inline]
        pub fn f64(&self) -> f64 {
            ((self.u64() >> 11) as f64) * CF64
        }

        #[inline]
        pub fn f32(&self) -> f32 {
            (self.u32() as f32) / (u32::MAX as f32)
        }

        #[inline]
        pub fn i64(&self) -> i64 {
            self.u64() as i64
        }

        #[inline]
        pub fn i32(&self) -> i32 {
            self.u32() as i32
        }

        #[inline]
        pub fn u64_less_than(&self, max: u64) -> u64 {
            let mut r = self.u64();
            let mut hi = mul_high_u64(r, max);
            let mut lo = r.wrapping_mul(max);
            if lo < max {
                let t = max.wrapping_neg() % max;
                while lo < t {
                    r = self.u64();
                    hi = mul_high_u64(r, max);
                    lo = r.wrapping_mul(max);
                }
            }
            hi
        }

        #[inline]
        pub fn u32_less_than(&self, max: u32) -> u32 {
            let mut r = self.u32();
            let mut hi = mul_high_u32(r, max);
            let mut lo = r.wrapping_mul(max);
            if lo < max {
                let t = max.wrapping_neg() % max;
                while lo < t {
                    r = self.u32();
                    hi = mul_high_u32(r, max);
                    lo = r.wrapping_mul(max);
                }
            }
            hi
        }

        #[inline]
        pub fn f64_less_than(&self, max: f64) -> f64 {
            assert!(max > 0., "max must be positive");
            self.f64() * max
        }

        #[inline]
        pub fn f32_less_than(&self, max: f32) -> f32 {
            assert!(max > 0., "max must be positive");
            self.f32() * max
        }

        #[inline]
        pub fn i64_less_than(&self, max: i64) -> i64 {
            self.u64_less_than(max as u64) as i64
        }

        #[inline]
        pub fn i32_less_than(&self, max: i32) -> i32 {
            self.u32_less_than(max as u32) as i32
        }

        #[inline]
        pub fn u64_in_range(&self, min: u64, max: u64) -> u64 {
            assert!(max > min, "max must be greater than min");
            min + self.u64_less_than(max + 1 - min)
        }

        #[inline]
        pub fn u32_in_range(&self, min: u32, max: u32) -> u32 {
            assert!(max > min, "max must be greater than min");
            min + self.u32_less_than(max + 1 - min)
        }

        #[inline]
        pub fn f64_in_range(&self, min: f64, max: f64) -> f64 {
            assert!(max > min, "max must be greater than min");
            min + self.f64_less_than(max - min)
        }

        #[inline]
        pub fn f32_in_range(&self, min: f32, max: f32) -> f32 {
            assert!(max > min, "max must be greater than min");
            min + self.f32_less_than(max - min)
        }

        #[inline]
        pub fn i64_in_range(&self, min: i64, max: i64) -> i64 {
            assert!(max > min, "max must be greater than min");
            min + self.i64_less_than(max + 1 - min)
        }

        #[inline]
        pub fn i32_in_range(&self, min: i32, max: i32) -> i32 {
            assert!(max > min, "max must be greater than min");
            min + self.i32_less_than(max + 1 - min)
        }

        #[inline]
        pub fn bool(&self) -> bool {
            self.f32() < 0.5
        }
    };
}

#[inline]
fn wyrand_step(state: &Cell<u64>) -> u64 {
    state.set(state.get().wrapping_add(0xa0761d6478bd642f));
    let s = state.get();
    let t = u128::from(s) * (u128::from(s ^ 0xe7037ed1a0b428db));
    ((t >> 64) as u64) ^ (t as u64)
}

impl Rng {
    /// The real crate hashes `Instant::now()` and the thread id here.  The simulator owns
    /// that clock: a fresh `Rng` starts from the current thread's simulated initial state.
    #[inline]
    pub fn new() -> Self {
        Self::with_seed(sim::thread_init())
    }

    #[inline]
    pub const fn with_seed(seed: u64) -> Self {
        Self { 0: Cell::new(seed) }
    }

    #[inline]
    pub fn get_seed(&self) -> u64 {
        self.0.get()
    }

    #[inline]
    pub fn set_seed(&self, seed: u64) {
        self.0.set(seed);
    }

    #[inline]
    pub fn u64(&self) -> u64 {
        wyrand_step(&self.0)
    }

    derived_methods!();

    #[inline]
    pub fn wyhash_u64(&self) -> u64 {
        self.0.set(self.0.get().wrapping_add(0x60bee2bee120fc15));
        let mut tmp: u128 = (self.0.get() as u128) * 0xa3b195354a39b70d;
        let m1: u64 = ((tmp >> 64) ^ tmp) as u64;
        tmp = (m1 as u128) * 0x1b03738712fad5c9;
        ((tmp >> 64) ^ tmp) as u64
    }

    #[inline]
    pub fn wyhash_f64(&self) -> f64 {
        (self.wyhash_u64() as f64) / (u64::MAX as f64)
    }
}

impl Default for Rng {
    fn default() -> Self {
        Self::new()
    }
}

#[inline]
fn mul_high_u32(a: u32, b: u32) -> u32 {
    (((a as u64) * (b as u64)) >> 32) as u32
}

#[inline]
fn mul_high_u64(a: u64, b: u64) -> u64 {
    (((a as u128) * (b as u128)) >> 64) as u64
}

/// The simulation seam around the thread-local generator.
pub mod sim {
    use std::cell::Cell;

    pub const SCRIPT_MAX: usize = 16;
    pub const TRACE_LEN: usize = 64;
    /// Default initial state of a never-seeded thread (an arbitrary odd constant).
    pub const DEFAULT_THREAD_INIT: u64 = 0x9e37_79b9_7f4a_7c15;
    pub const BUDGET_PANIC_MSG: &str = "simalea: draw budget exhausted";

    thread_local! {
        pub(crate) static STATE: Cell<u64> = const { Cell::new(DEFAULT_THREAD_INIT) };
        pub(crate) static DRAWS: Cell<u64> = const { Cell::new(0) };
        pub(crate) static BUDGET: Cell<u64> = const { Cell::new(u64::MAX) };
        pub(crate) static SCRIPT_N: Cell<usize> = const { Cell::new(0) };
        pub(crate) static SCRIPT: [Cell<(u64, u64)>; SCRIPT_MAX] =
            const { [const { Cell::new((0, 0)) }; SCRIPT_MAX] };
        pub(crate) static FIRED: Cell<u64> = const { Cell::new(0) };
        pub(crate) static FIRED_MASK: Cell<u32> = const { Cell::new(0) };
        pub(crate) static TRACE_ON: Cell<bool> = const { Cell::new(false) };
        pub(crate) static TRACE: [Cell<(u64, u64)>; TRACE_LEN] =
            const { [const { Cell::new((0, 0)) }; TRACE_LEN] };
        pub(crate) static TRACE_N: Cell<u64> = const { Cell::new(0) };
    }

    /// What a never-seeded thread starts from (replaces the `Instant::now()` hash).
    pub fn set_thread_init(x: u64) {
        STATE.with(|s| s.set((x << 1) | 1));
    }
    pub fn thread_init() -> u64 {
        STATE.with(|s| s.get())
    }
    /// Raw draws made through the thread-local generator on this thread so far.
    pub fn draws() -> u64 {
        DRAWS.with(|d| d.get())
    }
    /// Allow `n` more raw draws on this thread; the next one after that panics.
    pub fn set_budget(n: u64) {
        BUDGET.with(|b| b.set(n));
    }
    pub fn clear_budget() {
        BUDGET.with(|b| b.set(u64::MAX));
    }
    pub fn budget_left() -> u64 {
        BUDGET.with(|b| b.get())
    }
    /// Forced outputs: `(absolute draw index, raw u64)`; at most `SCRIPT_MAX` entries.
    pub fn set_script(entries: &[(u64, u64)]) {
        let n = entries.len().min(SCRIPT_MAX);
        SCRIPT.with(|sc| {
            for i in 0..n {
                sc[i].set(entries[i]);
            }
        });
        SCRIPT_N.with(|c| c.set(n));
        FIRED.with(|f| f.set(0));
        FIRED_MASK.with(|f| f.set(0));
    }
    pub fn clear_script() {
        SCRIPT_N.with(|c| c.set(0));
    }
    /// Number of forced outputs actually consumed since `set_script`.
    pub fn fired() -> u64 {
        FIRED.with(|f| f.get())
    }
    /// Bit i set <=> script entry i was consumed.
    pub fn fired_mask() -> u32 {
        FIRED_MASK.with(|f| f.get())
    }
    pub fn set_trace(on: bool) {
        TRACE_ON.with(|t| t.set(on));
        TRACE_N.with(|t| t.set(0));
    }
    /// Last (index, raw) pairs, oldest first; caller supplies the buffer (no allocation here).
    pub fn read_trace(out: &mut [(u64, u64)]) -> usize {
        let n = TRACE_N.with(|t| t.get());
        let k = (n as usize).min(TRACE_LEN).min(out.len());
        TRACE.with(|tr| {
            for i in 0..k {
                let pos = (n as usize - k + i) % TRACE_LEN;
                out[i] = tr[pos].get();
            }
        });
        k
    }
    /// Reset everything on this thread (state, counters, budget, script, trace).
    pub fn reset(thread_init: u64) {
        set_thread_init(thread_init);
        DRAWS.with(|d| d.set(0));
        clear_budget();
        clear_script();
        FIRED.with(|f| f.set(0));
        FIRED_MASK.with(|f| f.set(0));
        set_trace(false);
    }

    #[inline]
    pub(crate) fn hooked_u64() -> u64 {
        // budget first: an exhausted budget must not advance the state
        let left = BUDGET.with(|b| b.get());
        if left == 0 {
            panic!("{}", BUDGET_PANIC_MSG);
        }
        if left != u64::MAX {
            BUDGET.with(|b| b.set(left - 1));
        }
        let mut raw = STATE.with(|s| super::wyrand_step(s));
        let idx = DRAWS.with(|d| {
            let i = d.get();
            d.set(i + 1);
            i
        });
        let n = SCRIPT_N.with(|c| c.get());
        if n != 0 {
            SCRIPT.with(|sc| {
                for i in 0..n {
                    let (at, val) = sc[i].get();
                    if at == idx {
                        raw = val;
                        FIRED.with(|f| f.set(f.get() + 1));
                        FIRED_MASK.with(|f| f.set(f.get() | (1 << i)));
                    }
                }
            });
        }
        if TRACE_ON.with(|t| t.get()) {
            let k = TRACE_N.with(|t| {
                let k = t.get();
                t.set(k + 1);
                k
            });
            TRACE.with(|tr| tr[(k as usize) % TRACE_LEN].set((idx, raw)));
        }
        raw
    }
}

/// The thread-local generator as seen by the free functions: same derived arithmetic,
/// raw output routed through the seam.
struct Hooked;

impl Hooked {
    #[inline]
    fn get_seed(&self) -> u64 {
        sim::STATE.with(|s| s.get())
    }
    #[inline]
    fn set_seed(&self, seed: u64) {
        sim::STATE.with(|s| s.set(seed));
    }
    #[inline]
    pub fn u64(&self) -> u64 {
        sim::hooked_u64()
    }
    derived_methods!();
}

struct HookedTls;
impl HookedTls {
    #[inline]
    fn with<R>(&self, f: impl FnOnce(&Hooked) -> R) -> R {
        f(&Hooked)
    }
}
#[allow(non_upper_case_globals)]
const RNG: HookedTls = HookedTls;

#[doc = "Get the seed for the random number generator."]
pub fn get_seed() -> u64 {
    RNG.with(|rng| rng.get_seed())
}

#[doc = "Set the seed for the random number generator."]
pub fn set_seed(seed: u64) {
    RNG.with(|rng| rng.set_seed(seed));
}

macro_rules! impl_rng_functions {
($doc1: tt $doc2: tt | $($fn: ident $type: ident $($arg: ident)* ),+ $(,)?) => {
    $(
    #[doc = $doc1]
    #[doc = stringify!($type)]
    #[doc = $doc2]
    pub fn $fn( $($arg: $type, )* ) -> $type {
        RNG.with(|rng| rng.$fn( $($arg, )* ))
    }
    )+
};
}

macro_rules! impl_rng_functions_helper_1 {
($doc1: tt $doc2: tt | $($type: ident, )+) => {
    impl_rng_functions!($doc1 $doc2 | $($type $type, )+);
};
}

macro_rules! impl_rng_functions_helper_2 {
($doc1: tt $doc2: tt | $($fn: tt $type: ident, )+) => {
    impl_rng_functions!($doc1 $doc2 | $($fn $type max, )+);
};
}

macro_rules! impl_rng_functions_helper_3 {
($($fn: tt $type: ident, )+) => {
    impl_rng_functions!("Generate a random `" "` value in the range [min, max] (i.e., both endpoints are included)." | $($fn $type min max, )+);
}
}

impl_rng_functions_helper_1!("Generate a random `" "` value." | u64, u32, i64, i32, bool,);
impl_rng_functions_helper_1!("Generate a random `" "` value in the range [0, 1)." | f64, f32,);
impl_rng_functions_helper_2!("Generate a random `" "` value less than `max`." | u64_less_than u64, u32_less_than u32, i64_less_than i64, i32_less_than i32,);
impl_rng_functions_helper_2!("Generate a random `" "` value in the range [0, max)." | f64_less_than f64, f32_less_than f32,);
impl_rng_functions_helper_3!(u64_in_range u64, u32_in_range u32, f64_in_range f64, f32_in_range f32, i64_in_range i64, i32_in_range i32,);
