//! Shared run-time pieces: unwind capture, hashing, violation and statistics records,
//! exact-bits f64 serialisation.

use serde::{Deserialize, Deserializer, Serialize, Serializer};
use std::cell::RefCell;
use std::collections::BTreeMap;
use std::panic::{catch_unwind, AssertUnwindSafe};

thread_local! {
    static LAST_PANIC: RefCell<String> = const { RefCell::new(String::new()) };
}

/// Silence the default hook and remember the last message per thread.
pub fn install_panic_hook() {
    std::panic::set_hook(Box::new(|info| {
        let msg = if let Some(s) = info.payload().downcast_ref::<&str>() {
            (*s).to_string()
        } else if let Some(s) = info.payload().downcast_ref::<String>() {
            s.clone()
        } else {
            "<non-string panic>".to_string()
        };
        let loc = info
            .location()
            .map(|l| format!(" @{}:{}", l.file(), l.line()))
            .unwrap_or_default();
        let _ = LAST_PANIC.try_with(|p| {
            if let Ok(mut p) = p.try_borrow_mut() {
                *p = format!("{}{}", msg, loc);
            }
        });
    }));
}

/// Run `f`, turning an unwind into `Err(panic message)`.
pub fn catch<R>(f: impl FnOnce() -> R) -> Result<R, String> {
    match catch_unwind(AssertUnwindSafe(f)) {
        Ok(r) => Ok(r),
        Err(_) => Err(LAST_PANIC.with(|p| p.borrow().clone())),
    }
}

pub fn is_budget_panic(msg: &str) -> bool {
    msg.contains(alea::sim::BUDGET_PANIC_MSG)
}

/// FNV-1a 64 over explicit words: the event-log hash (no allocation, no clock).
#[derive(Clone, Copy)]
pub struct H64(pub u64);
impl H64 {
    pub fn new() -> Self {
        H64(0xcbf29ce484222325)
    }
    #[inline]
    pub fn u(&mut self, v: u64) {
        for b in v.to_le_bytes() {
            self.0 ^= b as u64;
            self.0 = self.0.wrapping_mul(0x100000001b3);
        }
    }
    #[inline]
    pub fn f(&mut self, v: f64) {
        self.u(v.to_bits())
    }
    pub fn s(&mut self, s: &str) {
        for b in s.bytes() {
            self.0 ^= b as u64;
            self.0 = self.0.wrapping_mul(0x100000001b3);
        }
        self.u(0xff);
    }
    pub fn fs(&mut self, xs: &[f64]) {
        self.u(xs.len() as u64);
        for x in xs {
            self.f(*x);
        }
    }
}

/// f64 carried by exact bit pattern; serialised as "0x<bits> (<decimal>)".
#[derive(Clone, Copy, Debug, PartialEq)]
pub struct Fb(pub f64);
impl Serialize for Fb {
    fn serialize<S: Serializer>(&self, s: S) -> Result<S::Ok, S::Error> {
        s.serialize_str(&format!("0x{:016x} ({:e})", self.0.to_bits(), self.0))
    }
}
impl<'de> Deserialize<'de> for Fb {
    fn deserialize<D: Deserializer<'de>>(d: D) -> Result<Self, D::Error> {
        let s = String::deserialize(d)?;
        let hex = s.trim_start_matches("0x");
        let hex = hex.split_whitespace().next().unwrap_or("");
        u64::from_str_radix(hex, 16)
            .map(|b| Fb(f64::from_bits(b)))
            .map_err(serde::de::Error::custom)
    }
}
pub fn fbs(xs: &[f64]) -> Vec<Fb> {
    xs.iter().map(|x| Fb(*x)).collect()
}
pub fn unfb(xs: &[Fb]) -> Vec<f64> {
    xs.iter().map(|x| x.0).collect()
}

/// u64 carried as hex string (JSON numbers above 2^53 are unsafe for other readers)
#[derive(Clone, Copy, Debug, PartialEq, Eq)]
pub struct Hx(pub u64);
impl Serialize for Hx {
    fn serialize<S: Serializer>(&self, s: S) -> Result<S::Ok, S::Error> {
        s.serialize_str(&format!("0x{:016x}", self.0))
    }
}
impl<'de> Deserialize<'de> for Hx {
    fn deserialize<D: Deserializer<'de>>(d: D) -> Result<Self, D::Error> {
        let s = String::deserialize(d)?;
        u64::from_str_radix(s.trim_start_matches("0x"), 16)
            .map(Hx)
            .map_err(serde::de::Error::custom)
    }
}

#[derive(Clone, Debug, Serialize, Deserialize, PartialEq)]
pub struct Viol {
    /// which oracle
    pub check: String,
    /// violation class (stable under minimisation)
    pub class: String,
    /// human detail (not part of the signature)
    pub detail: String,
    /// fields a known-finding matcher looks at
    pub key: BTreeMap<String, String>,
}

impl Viol {
    pub fn new(check: &str, class: &str, detail: String) -> Self {
        Viol {
            check: check.to_string(),
            class: class.to_string(),
            detail,
            key: BTreeMap::new(),
        }
    }
    pub fn k(mut self, name: &str, val: impl ToString) -> Self {
        self.key.insert(name.to_string(), val.to_string());
        self
    }
    pub fn class_sig(&self) -> String {
        format!("{}/{}", self.check, self.class)
    }
    /// grouping signature: oracle, class and matcher key
    pub fn full_sig(&self) -> String {
        let mut s = self.class_sig();
        for (k, v) in &self.key {
            s.push_str(&format!("|{}={}", k, v));
        }
        s
    }
}

/// Per-run measurements, merged by the worker and then by the parent.
#[derive(Default, Clone, Debug, Serialize, Deserialize)]
pub struct Stats {
    pub counters: BTreeMap<String, u64>,
    #[serde(skip)]
    pub distinct: Vec<u64>,
    #[serde(skip)]
    pub nontrivial: bool,
    #[serde(skip)]
    pub log: u64,
}

impl Stats {
    #[inline]
    pub fn inc(&mut self, k: &str) {
        self.add(k, 1)
    }
    pub fn add(&mut self, k: &str, n: u64) {
        if n == 0 {
            return;
        }
        if let Some(v) = self.counters.get_mut(k) {
            *v += n;
        } else {
            self.counters.insert(k.to_string(), n);
        }
    }
    pub fn merge(&mut self, other: &Stats) {
        for (k, v) in &other.counters {
            self.add(k, *v);
        }
    }
}

pub fn slice_bits_eq(a: &[f64], b: &[f64]) -> Option<usize> {
    if a.len() != b.len() {
        return Some(a.len().min(b.len()));
    }
    for i in 0..a.len() {
        if a[i].to_bits() != b[i].to_bits() {
            return Some(i);
        }
    }
    None
}
