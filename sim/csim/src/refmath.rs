//! Independent reference CDFs for C03. Shares no code with /repo: libm's erfc / lgamma,
//! regularised incomplete gamma (series + Lentz continued fraction) and incomplete beta
//! (Lentz continued fraction). Self-checked against refdata/cdf_table.json (scipy).

extern "C" {
    fn erfc(x: f64) -> f64;
    fn lgamma_r(x: f64, sign: *mut i32) -> f64;
}

pub fn lgam(x: f64) -> f64 {
    let mut s: i32 = 0;
    unsafe { lgamma_r(x, &mut s) }
}

pub fn norm_cdf(z: f64) -> f64 {
    0.5 * unsafe { erfc(-z / std::f64::consts::SQRT_2) }
}

/// regularised lower incomplete gamma P(a, x)
pub fn gamma_p(a: f64, x: f64) -> f64 {
    if x <= 0.0 {
        return 0.0;
    }
    if x.is_infinite() {
        return 1.0;
    }
    if x < a + 1.0 {
        // series
        let mut ap = a;
        let mut del = 1.0 / a;
        let mut sum = del;
        for _ in 0..100_000 {
            ap += 1.0;
            del *= x / ap;
            sum += del;
            if del.abs() < sum.abs() * 1e-17 {
                break;
            }
        }
        (sum.ln() - x + a * x.ln() - lgam(a)).exp().min(1.0)
    } else {
        1.0 - gamma_q_cf(a, x)
    }
}

fn gamma_q_cf(a: f64, x: f64) -> f64 {
    let tiny = 1e-300;
    let mut b = x + 1.0 - a;
    let mut c = 1.0 / tiny;
    let mut d = 1.0 / b;
    let mut h = d;
    for i in 1..100_000 {
        let an = -(i as f64) * (i as f64 - a);
        b += 2.0;
        d = an * d + b;
        if d.abs() < tiny {
            d = tiny;
        }
        c = b + an / c;
        if c.abs() < tiny {
            c = tiny;
        }
        d = 1.0 / d;
        let del = d * c;
        h *= del;
        if (del - 1.0).abs() < 1e-16 {
            break;
        }
    }
    ((-x + a * x.ln() - lgam(a)).exp() * h).clamp(0.0, 1.0)
}

pub fn gamma_q(a: f64, x: f64) -> f64 {
    if x <= 0.0 {
        return 1.0;
    }
    if x < a + 1.0 {
        1.0 - gamma_p(a, x)
    } else {
        gamma_q_cf(a, x)
    }
}

fn betacf(a: f64, b: f64, x: f64) -> f64 {
    let tiny = 1e-300;
    let (qab, qap, qam) = (a + b, a + 1.0, a - 1.0);
    let mut c = 1.0;
    let mut d = 1.0 - qab * x / qap;
    if d.abs() < tiny {
        d = tiny;
    }
    d = 1.0 / d;
    let mut h = d;
    for m in 1..200_000 {
        let m = m as f64;
        let m2 = 2.0 * m;
        let aa = m * (b - m) * x / ((qam + m2) * (a + m2));
        d = 1.0 + aa * d;
        if d.abs() < tiny {
            d = tiny;
        }
        c = 1.0 + aa / c;
        if c.abs() < tiny {
            c = tiny;
        }
        d = 1.0 / d;
        h *= d * c;
        let aa = -(a + m) * (qab + m) * x / ((a + m2) * (qap + m2));
        d = 1.0 + aa * d;
        if d.abs() < tiny {
            d = tiny;
        }
        c = 1.0 + aa / c;
        if c.abs() < tiny {
            c = tiny;
        }
        d = 1.0 / d;
        let del = d * c;
        h *= del;
        if (del - 1.0).abs() < 1e-16 {
            break;
        }
    }
    h
}

/// regularised incomplete beta I_x(a, b)
pub fn beta_i(a: f64, b: f64, x: f64) -> f64 {
    if x <= 0.0 {
        return 0.0;
    }
    if x >= 1.0 {
        return 1.0;
    }
    let bt = (lgam(a + b) - lgam(a) - lgam(b) + a * x.ln() + b * (-x).ln_1p()).exp();
    if x < (a + 1.0) / (a + b + 2.0) {
        (bt * betacf(a, b, x) / a).clamp(0.0, 1.0)
    } else {
        (1.0 - bt * betacf(b, a, 1.0 - x) / b).clamp(0.0, 1.0)
    }
}

pub fn t_cdf(nu: f64, t: f64) -> f64 {
    if t == 0.0 {
        return 0.5;
    }
    let x = nu / (nu + t * t);
    let tail = 0.5 * beta_i(nu / 2.0, 0.5, x);
    if t > 0.0 {
        1.0 - tail
    } else {
        tail
    }
}

pub fn pois_cdf(lam: f64, k: f64) -> f64 {
    if k < 0.0 {
        0.0
    } else if lam > 1e6 {
        // normal approximation with the first Cornish-Fisher (skewness) correction; error O(1/lam)
        let w = (k.floor() + 0.5 - lam) / lam.sqrt();
        norm_cdf(w - (w * w - 1.0) / (6.0 * lam.sqrt()))
    } else {
        gamma_q(k.floor() + 1.0, lam)
    }
}

pub fn binom_cdf(n: f64, p: f64, k: f64) -> f64 {
    let k = k.floor();
    if k < 0.0 {
        0.0
    } else if k >= n {
        1.0
    } else if p <= 0.0 {
        1.0
    } else if p >= 1.0 {
        0.0
    } else {
        1.0 - beta_i(k + 1.0, n - k, p)
    }
}

/// compare with the scipy table; returns (entries, worst absolute error)
pub fn selfcheck(table_json: &str) -> Result<(usize, f64), String> {
    let rows: Vec<serde_json::Value> = serde_json::from_str(table_json).map_err(|e| e.to_string())?;
    let mut worst = 0.0f64;
    for r in &rows {
        let f = r["fn"].as_str().unwrap_or("");
        let a: Vec<f64> = r["args"].as_array().map(|v| v.iter().map(|x| x.as_f64().unwrap_or(f64::NAN)).collect()).unwrap_or_default();
        let want = r["val"].as_f64().unwrap_or(f64::NAN);
        let got = match f {
            "gammap" => gamma_p(a[0], a[1]),
            "betai" => beta_i(a[0], a[1], a[2]),
            "normcdf" => norm_cdf(a[0]),
            "tcdf" => t_cdf(a[0], a[1]),
            "poiscdf" => pois_cdf(a[0], a[1]),
            "binomcdf" => binom_cdf(a[0], a[1], a[2]),
            _ => return Err(format!("unknown fn {}", f)),
        };
        let e = (got - want).abs();
        if !(e <= 1e-9) {
            return Err(format!("{}({:?}) = {:e}, scipy {:e}", f, a, got, want));
        }
        worst = worst.max(e);
    }
    Ok((rows.len(), worst))
}
