//! SplitMix64: the simulator's own PRNG. Everything a run decides derives from one of these,
//! itself derived from (VERIF_SEED, property, run index). Never used by logging paths.

#[derive(Clone, Debug)]
pub struct Sm(pub u64);

#[inline]
pub fn mix64(mut z: u64) -> u64 {
    z = (z ^ (z >> 30)).wrapping_mul(0xbf58476d1ce4e5b9);
    z = (z ^ (z >> 27)).wrapping_mul(0x94d049bb133111eb);
    z ^ (z >> 31)
}

pub fn mix3(a: u64, b: u64, c: u64) -> u64 {
    mix64(mix64(mix64(a ^ 0x9e3779b97f4a7c15).wrapping_add(b)).wrapping_add(c))
}

pub fn str_id(s: &str) -> u64 {
    let mut h: u64 = 0xcbf29ce484222325;
    for b in s.bytes() {
        h ^= b as u64;
        h = h.wrapping_mul(0x100000001b3);
    }
    h
}

impl Sm {
    pub fn new(seed: u64) -> Self {
        Sm(seed)
    }
    #[inline]
    pub fn next(&mut self) -> u64 {
        self.0 = self.0.wrapping_add(0x9e3779b97f4a7c15);
        mix64(self.0)
    }
    /// uniform in 0..n (n > 0); modulo bias is irrelevant for workload generation
    #[inline]
    pub fn below(&mut self, n: u64) -> u64 {
        debug_assert!(n > 0);
        ((self.next() as u128 * n as u128) >> 64) as u64
    }
    #[inline]
    pub fn range(&mut self, lo: i64, hi: i64) -> i64 {
        lo + self.below((hi - lo + 1) as u64) as i64
    }
    #[inline]
    pub fn usize(&mut self, lo: usize, hi: usize) -> usize {
        lo + self.below((hi - lo + 1) as u64) as usize
    }
    #[inline]
    pub fn f64(&mut self) -> f64 {
        (self.next() >> 11) as f64 / (1u64 << 53) as f64
    }
    #[inline]
    pub fn chance(&mut self, p: f64) -> bool {
        self.f64() < p
    }
    pub fn pick<'a, T>(&mut self, xs: &'a [T]) -> &'a T {
        &xs[self.below(xs.len() as u64) as usize]
    }
}
