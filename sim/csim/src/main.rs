//! csim — deterministic simulation driver for the claimed properties of `compute`.
//!
//!   csim check <ID> <quick|thorough>     run a batch, minimise + confirm violations, write evidence
//!   csim replay <file>                   re-execute a replay file in a fresh child process
//!   csim selftest alea                   sim-alea == real alea 0.2.2 (seam inert)
//!   csim selftest determinism <ID> [n]   same seed => same event log, across worker counts
//!   (internal) worker / gencase / minimise / replay-inner
//!
//! Exit codes: 0 held (or only known findings); 1 VIOLATION; 2 harness error.

mod alloc_seam;
mod harness;
mod prng;
mod props;
mod refmath;

use harness::*;
use props::{Prop, Tier};
use serde_json::{json, Value};
use std::collections::{BTreeMap, HashSet};
use std::io::Write;
use std::path::{Path, PathBuf};
use std::process::{Child, Command, Stdio};
use std::time::Instant;

#[global_allocator]
static GLOBAL: alloc_seam::SimAlloc = alloc_seam::SimAlloc;

fn root() -> PathBuf {
    PathBuf::from(std::env::var("CSIM_ROOT").unwrap_or_else(|_| "/verif".into()))
}
fn verif_seed() -> u64 {
    std::env::var("VERIF_SEED").ok().and_then(|s| s.trim().parse::<u64>().ok()).unwrap_or(1)
}
fn n_workers() -> usize {
    std::env::var("CSIM_WORKERS").ok().and_then(|s| s.parse().ok()).unwrap_or(16)
}
fn die(msg: &str) -> ! {
    eprintln!("csim: harness error: {}", msg);
    println!("HARNESS-ERROR {}", msg);
    std::process::exit(2)
}

// ---------------------------------------------------------------------------------------------
// CPU watchdog (the one place a clock decides, DESIGN §3.6a): virtual (user CPU) time of this
// process only; default action of SIGVTALRM terminates the process.
fn arm_watchdog(secs: u32) {
    let it = libc::itimerval {
        it_interval: libc::timeval { tv_sec: 0, tv_usec: 0 },
        it_value: libc::timeval { tv_sec: secs as libc::time_t, tv_usec: 0 },
    };
    unsafe {
        libc::setitimer(libc::ITIMER_VIRTUAL, &it, std::ptr::null_mut());
    }
}

// ---------------------------------------------------------------------------------------------
// worker: executes a contiguous range of run indices

#[derive(serde::Serialize, serde::Deserialize, Clone)]
struct FoundViol {
    run: u64,
    case: Value,
    viol: Viol,
}

#[derive(serde::Serialize, serde::Deserialize, Default)]
struct ChunkResult {
    start: u64,
    end: u64,
    executed: u64,
    nontrivial_runs: u64,
    stats: Stats,
    viols: Vec<FoundViol>,
    viols_total: u64,
    samples: Vec<Value>,
    harness_error: Option<String>,
}

/// One run = one fresh OS thread: every thread-local in the library, in sim-alea and in the
/// allocator seam starts from its initial value, so a run cannot depend on the runs that the
/// same worker process executed before it (and a replay in a fresh process sees the same).
fn run_one<P: Prop>(case: &P::Case, st: &mut Stats) -> Result<Option<Viol>, String> {
    std::thread::scope(|s| {
        let h = std::thread::Builder::new()
            .stack_size(8 << 20)
            .spawn_scoped(s, || {
                alloc_seam::reset_policy();
                let r = catch(|| P::exec(case, st));
                alloc_seam::reset_policy();
                alea::sim::clear_budget();
                alea::sim::clear_script();
                r
            })
            .map_err(|e| format!("cannot spawn run thread: {}", e))?;
        h.join().unwrap_or_else(|_| Err("run thread died".to_string()))
    })
}

fn worker<P: Prop>(tier: Tier, seed: u64, start: u64, end: u64, prefix: &str, skip: &[u64]) -> i32 {
    install_panic_hook();
    let cur_path = format!("{}.cur", prefix);
    let cur = std::fs::OpenOptions::new().create(true).write(true).open(&cur_path).unwrap();
    use std::os::unix::fs::FileExt;
    let mut res = ChunkResult { start, end, ..Default::default() };
    let mut distinct: HashSet<u64> = HashSet::new();
    let mut logs: Vec<u64> = Vec::with_capacity((end - start) as usize);
    for run in start..end {
        if skip.contains(&run) {
            logs.push(0);
            continue;
        }
        let _ = cur.write_all_at(&run.to_le_bytes(), 0);
        arm_watchdog(P::cpu_limit_s());
        let case = P::gen(seed, run, tier);
        let mut st = Stats::default();
        match run_one::<P>(&case, &mut st) {
            Err(msg) => {
                res.harness_error = Some(format!("exec unwound at run {}: {}", run, msg));
                break;
            }
            Ok(v) => {
                res.executed += 1;
                res.stats.merge(&st);
                if st.nontrivial {
                    res.nontrivial_runs += 1;
                    for d in &st.distinct {
                        distinct.insert(*d);
                    }
                }
                let mut lh = H64(st.log);
                lh.u(run);
                logs.push(lh.0);
                if let Some(v) = v {
                    res.viols_total += 1;
                    if res.viols.len() < 24 {
                        res.viols.push(FoundViol { run, case: serde_json::to_value(&case).unwrap(), viol: v });
                    }
                } else if res.samples.len() < 2 && (run % 97 == 3 || run == start) && start == 0 {
                    res.samples.push(serde_json::to_value(&case).unwrap());
                }
            }
        }
    }
    arm_watchdog(0);
    let mut db: Vec<u8> = Vec::with_capacity(distinct.len() * 8);
    let mut dv: Vec<u64> = distinct.into_iter().collect();
    dv.sort_unstable();
    for d in dv {
        db.extend_from_slice(&d.to_le_bytes());
    }
    std::fs::write(format!("{}.distinct", prefix), db).unwrap();
    let mut lb: Vec<u8> = Vec::with_capacity(logs.len() * 8);
    for l in logs {
        lb.extend_from_slice(&l.to_le_bytes());
    }
    std::fs::write(format!("{}.log", prefix), lb).unwrap();
    std::fs::write(format!("{}.json", prefix), serde_json::to_vec(&res).unwrap()).unwrap();
    if res.harness_error.is_some() {
        2
    } else {
        0
    }
}

// ---------------------------------------------------------------------------------------------
// minimiser (runs in its own child process)

#[derive(serde::Serialize, serde::Deserialize, Clone)]
struct ReplayFile {
    property: String,
    check: String,
    class: String,
    signature: String,
    key: BTreeMap<String, String>,
    detail: String,
    verif_seed: u64,
    run: u64,
    tier: String,
    minimised: bool,
    reexecutions: u64,
    case_size_before: usize,
    case_size_after: usize,
    case: Value,
    /// Some([from, to]): the violation needs the history of the worker process: runs from..to of the
    /// batch (regenerated from verif_seed) are executed first, in order, in the replaying process,
    /// then `case` (= run `to`). State that lives outside any thread (statics) is thereby rebuilt.
    #[serde(default)]
    history: Option<[u64; 2]>,
}

fn case_size(v: &Value) -> usize {
    serde_json::to_string(v).map(|s| s.len()).unwrap_or(0)
}

fn minimise<P: Prop>(inp: &str, outp: &str) -> i32 {
    install_panic_hook();
    let mut rf: ReplayFile = serde_json::from_slice(&std::fs::read(inp).unwrap()).unwrap();
    let mut cur: P::Case = serde_json::from_value(rf.case.clone()).unwrap();
    let want = format!("{}/{}", rf.check, rf.class);
    let mut reexec = 0u64;
    // confirm first
    arm_watchdog(P::cpu_limit_s());
    let mut st = Stats::default();
    let first = run_one::<P>(&cur, &mut st).ok().flatten();
    let mut curv = match first {
        Some(v) if v.class_sig() == want => v,
        _ => {
            eprintln!("minimise: original case does not reproduce {}", want);
            return 3;
        }
    };
    let budget = 2000u64;
    'outer: loop {
        let cands = P::shrink(&cur);
        for c in cands {
            if reexec >= budget {
                break 'outer;
            }
            reexec += 1;
            arm_watchdog(P::cpu_limit_s());
            let mut st = Stats::default();
            if let Ok(Some(v)) = run_one::<P>(&c, &mut st) {
                if v.class_sig() == want {
                    cur = c;
                    curv = v;
                    continue 'outer;
                }
            }
        }
        break;
    }
    arm_watchdog(0);
    rf.case_size_before = case_size(&rf.case);
    rf.case = serde_json::to_value(&cur).unwrap();
    rf.case_size_after = case_size(&rf.case);
    rf.minimised = true;
    rf.reexecutions = reexec;
    rf.detail = curv.detail.clone();
    rf.key = curv.key.clone();
    rf.signature = curv.full_sig();
    std::fs::write(outp, serde_json::to_vec_pretty(&rf).unwrap()).unwrap();
    0
}

fn replay_inner<P: Prop>(rf: &ReplayFile) -> i32 {
    install_panic_hook();
    let case: P::Case = match serde_json::from_value(rf.case.clone()) {
        Ok(c) => c,
        Err(e) => die(&format!("replay file case does not parse: {}", e)),
    };
    if let Some([from, to]) = rf.history {
        let tier = Tier::parse(&rf.tier).unwrap_or(Tier::Quick);
        for run in from..to {
            arm_watchdog(P::cpu_limit_s());
            let c = P::gen(rf.verif_seed, run, tier);
            let mut st = Stats::default();
            let _ = run_one::<P>(&c, &mut st);
        }
    }
    arm_watchdog(P::cpu_limit_s());
    let mut st = Stats::default();
    match run_one::<P>(&case, &mut st) {
        Err(m) => die(&format!("exec unwound: {}", m)),
        Ok(None) => {
            println!("REPLAY property={} result=held", rf.property);
            0
        }
        Ok(Some(v)) => {
            println!("REPLAY property={} result=violation signature={} detail={}", rf.property, v.full_sig(), v.detail);
            if v.class_sig() == format!("{}/{}", rf.check, rf.class) {
                1
            } else {
                4
            }
        }
    }
}

// ---------------------------------------------------------------------------------------------
// parent side

fn self_exe() -> PathBuf {
    std::env::current_exe().unwrap()
}

fn exit_signal(st: &std::process::ExitStatus) -> Option<i32> {
    use std::os::unix::process::ExitStatusExt;
    st.signal()
}

struct Batch {
    results: Vec<ChunkResult>,
    distinct: HashSet<u64>,
    log_hash: u64,
    per_run_logs: Vec<u64>,
    hangs: Vec<(u64, String)>,
}

/// Run chunks [0..runs) with a pool of `workers` child processes.
fn run_batch(id: &str, tier: Tier, seed: u64, runs: u64, chunk: u64, workers: usize, dir: &Path, tag: &str, keep_logs: bool) -> Batch {
    std::fs::create_dir_all(dir).unwrap();
    let nchunks = ((runs + chunk - 1) / chunk) as usize;
    let mut pending: Vec<(usize, Vec<u64>)> = (0..nchunks).rev().map(|c| (c, vec![])).collect();
    let mut running: Vec<(usize, Vec<u64>, Child)> = vec![];
    let mut done: BTreeMap<usize, ChunkResult> = BTreeMap::new();
    let mut hangs: Vec<(u64, String)> = vec![];
    let prefix = |c: usize| format!("{}/{}-{}", dir.display(), tag, c);
    loop {
        while running.len() < workers {
            if let Some((c, skip)) = pending.pop() {
                let s = c as u64 * chunk;
                let e = (s + chunk).min(runs);
                let mut cmd = Command::new(self_exe());
                cmd.arg("worker").arg(id).arg(tier.name()).arg(seed.to_string()).arg(s.to_string()).arg(e.to_string()).arg(prefix(c));
                for k in &skip {
                    cmd.arg(k.to_string());
                }
                cmd.stdout(Stdio::null());
                let child = cmd.spawn().unwrap_or_else(|e| die(&format!("spawn worker: {}", e)));
                running.push((c, skip, child));
            } else {
                break;
            }
        }
        if running.is_empty() {
            break;
        }
        let mut i = 0;
        let mut progressed = false;
        while i < running.len() {
            match running[i].2.try_wait() {
                Ok(Some(status)) => {
                    progressed = true;
                    let (c, mut skip, _) = running.swap_remove(i);
                    if let Some(sig) = exit_signal(&status) {
                        // killed: attribute to the last announced run, then redo the chunk without it
                        let cur = std::fs::read(format!("{}.cur", prefix(c))).ok();
                        let run = cur.and_then(|b| b.get(0..8).map(|x| u64::from_le_bytes(x.try_into().unwrap())));
                        match run {
                            Some(r) if !skip.contains(&r) && skip.len() < 16 => {
                                let class = if sig == libc::SIGVTALRM { "nontermination_nodraw".to_string() } else { format!("signal_{}", sig) };
                                hangs.push((r, class));
                                skip.push(r);
                                if hangs.len() >= 3 {
                                    // killed workers are violations already: stop exploring, report them
                                    pending.clear();
                                    for (_, _, ch) in running.iter_mut() {
                                        let _ = ch.kill();
                                        let _ = ch.wait();
                                    }
                                    running.clear();
                                    println!("BATCH-ABORTED after {} killed workers (hang or crash); reporting them", hangs.len());
                                    break;
                                }
                                pending.push((c, skip));
                            }
                            _ => die(&format!("worker for chunk {} died with signal {} and cannot be attributed", c, sig)),
                        }
                    } else if status.code() == Some(0) || status.code() == Some(2) {
                        let bytes = std::fs::read(format!("{}.json", prefix(c))).unwrap_or_else(|_| die("worker result missing"));
                        let r: ChunkResult = serde_json::from_slice(&bytes).unwrap_or_else(|e| die(&format!("worker result unreadable: {}", e)));
                        if let Some(h) = &r.harness_error {
                            die(h);
                        }
                        done.insert(c, r);
                    } else {
                        die(&format!("worker for chunk {} exited with {:?}", c, status.code()));
                    }
                }
                Ok(None) => i += 1,
                Err(e) => die(&format!("wait: {}", e)),
            }
        }
        if !progressed {
            std::thread::sleep(std::time::Duration::from_millis(2));
        }
    }
    let mut distinct: HashSet<u64> = HashSet::new();
    let mut lh = H64::new();
    let mut per_run = vec![];
    for c in 0..nchunks {
        let p = prefix(c);
        if let Ok(b) = std::fs::read(format!("{}.distinct", p)) {
            for w in b.chunks_exact(8) {
                distinct.insert(u64::from_le_bytes(w.try_into().unwrap()));
            }
        }
        if let Ok(b) = std::fs::read(format!("{}.log", p)) {
            for w in b.chunks_exact(8) {
                let v = u64::from_le_bytes(w.try_into().unwrap());
                lh.u(v);
                if keep_logs {
                    per_run.push(v);
                }
            }
        }
        for ext in ["distinct", "log", "json", "cur"] {
            let _ = std::fs::remove_file(format!("{}.{}", p, ext));
        }
    }
    hangs.sort();
    Batch { results: done.into_values().collect(), distinct, log_hash: lh.0, per_run_logs: per_run, hangs }
}

#[derive(serde::Deserialize, Default)]
struct KnownFindings {
    #[serde(default)]
    findings: Vec<KnownFinding>,
    #[serde(default)]
    #[allow(dead_code)]
    fixed: Vec<String>,
}
#[derive(serde::Deserialize)]
struct KnownFinding {
    property: String,
    id: String,
    #[serde(rename = "match")]
    matcher: BTreeMap<String, Value>,
    what: String,
}

fn matches_known(k: &KnownFinding, prop: &str, rf: &ReplayFile) -> bool {
    if k.property != prop {
        return false;
    }
    for (field, want) in &k.matcher {
        let have: Option<String> = match field.as_str() {
            "check" => Some(rf.check.clone()),
            "class" => Some(rf.class.clone()),
            f => rf.key.get(f).cloned(),
        };
        let have = match have {
            Some(h) => h,
            None => return false,
        };
        let ok = match want {
            Value::String(s) => *s == have,
            Value::Array(a) => a.iter().any(|x| x.as_str() == Some(have.as_str())),
            other => other.to_string() == have,
        };
        if !ok {
            return false;
        }
    }
    true
}

/// Replay in a fresh process. Returns (reproduced, description).
fn replay_outer(path: &Path) -> (bool, String) {
    let rf: ReplayFile = match std::fs::read(path).ok().and_then(|b| serde_json::from_slice(&b).ok()) {
        Some(r) => r,
        None => return (false, "unreadable replay file".into()),
    };
    let out = Command::new(self_exe()).arg("replay-inner").arg(path).output().unwrap();
    let stdout = String::from_utf8_lossy(&out.stdout).to_string();
    if let Some(sig) = exit_signal(&out.status) {
        let class = if sig == libc::SIGVTALRM { "nontermination_nodraw".to_string() } else { format!("signal_{}", sig) };
        return (class == rf.class, format!("child killed by signal {} ({})", sig, class));
    }
    match out.status.code() {
        Some(1) => (true, stdout.trim().to_string()),
        Some(0) => (false, "held on replay".into()),
        Some(4) => (false, format!("different violation on replay: {}", stdout.trim())),
        c => (false, format!("replay-inner exit {:?}: {}", c, stdout.trim())),
    }
}

fn check<P: Prop>(tier: Tier) -> i32 {
    let t0 = Instant::now();
    let seed = verif_seed();
    let id = P::ID;
    println!("VERIF_SEED={} property={} tier={}", seed, id, tier.name());
    if id == "C03" {
        let t = std::fs::read_to_string(root().join("refdata/cdf_table.json")).unwrap_or_else(|_| die("refdata/cdf_table.json missing"));
        match refmath::selfcheck(&t) {
            Ok((n, w)) => println!("refmath self-check: {} entries agree with scipy (worst abs error {:.2e})", n, w),
            Err(e) => die(&format!("refmath self-check failed: {}", e)),
        }
    }
    let runs = std::env::var("CSIM_RUNS").ok().and_then(|s| s.parse().ok()).unwrap_or_else(|| P::runs(tier));
    let chunk = P::chunk(tier);
    let dir = root().join("sim/target/run").join(format!("{}-{}-{}", id, tier.name(), std::process::id()));

    // reduced determinism self-test: first chunk, twice, 1 worker vs many, split differently
    let st_runs = chunk.min(runs).min(400);
    let a = run_batch(id, tier, seed, st_runs, st_runs, 1, &dir, "det-a", true);
    let b = run_batch(id, tier, seed, st_runs, (st_runs / 7).max(1), n_workers(), &dir, "det-b", true);
    let det_mismatch = a.per_run_logs.iter().zip(b.per_run_logs.iter()).filter(|(x, y)| x != y).count()
        + (a.per_run_logs.len() as i64 - b.per_run_logs.len() as i64).unsigned_abs() as usize;
    let mut nondeterminism: Option<String> = None;
    if det_mismatch != 0 && a.hangs.is_empty() {
        // Do not stop here: a change that makes runs irreproducible (e.g. a thread pool inside the
        // library) usually also breaks the property in a reproducible way. Violations are only
        // reported after their replay reproduced in a fresh process; if none does, this is exit 2.
        let first = a.per_run_logs.iter().zip(b.per_run_logs.iter()).position(|(x, y)| x != y);
        let msg = format!("determinism self-test failed: {} of {} runs differ between two executions (first at run {:?})", det_mismatch, st_runs, first);
        println!("NONDETERMINISM {}", msg);
        nondeterminism = Some(msg);
    }

    let batch = run_batch(id, tier, seed, runs, chunk, n_workers(), &dir, "main", false);
    let mut stats = Stats::default();
    let mut executed = 0u64;
    let mut nontrivial = 0u64;
    let mut viols: Vec<FoundViol> = vec![];
    let mut viols_total = 0u64;
    let mut samples: Vec<Value> = vec![];
    for r in &batch.results {
        stats.merge(&r.stats);
        executed += r.executed;
        nontrivial += r.nontrivial_runs;
        viols_total += r.viols_total;
        viols.extend(r.viols.iter().cloned());
        for s in &r.samples {
            if samples.len() < 3 {
                samples.push(s.clone());
            }
        }
    }
    // hangs / crashes become violations whose case is regenerated from the seed
    for (run, class) in &batch.hangs {
        let case = P::gen(seed, *run, tier);
        viols_total += 1;
        viols.push(FoundViol {
            run: *run,
            case: serde_json::to_value(&case).unwrap(),
            viol: Viol::new("liveness", class, format!("worker killed while executing run {}", run)).k("run_class", class),
        });
    }

    // group by full signature; minimise + confirm one representative per group
    let kf: KnownFindings = std::fs::read(root().join("known_findings.json")).ok().and_then(|b| serde_json::from_slice(&b).ok()).unwrap_or_default();
    viols.sort_by(|a, b| (a.viol.full_sig(), a.run).cmp(&(b.viol.full_sig(), b.run)));
    let mut groups: BTreeMap<String, Vec<FoundViol>> = BTreeMap::new();
    for v in viols {
        groups.entry(v.viol.full_sig()).or_default().push(v);
    }
    let replay_dir = std::env::var("CSIM_REPLAY_DIR").map(PathBuf::from).unwrap_or_else(|_| root().join("replays"));
    std::fs::create_dir_all(&replay_dir).unwrap();
    let mut new_violations: Vec<(String, PathBuf)> = vec![];
    let mut known_matched: BTreeMap<String, (String, u64)> = BTreeMap::new();
    let mut harness_errors: Vec<String> = vec![];
    let max_groups = 40;
    let mut examined = 0;
    for (sig, vs) in &groups {
        // cheap pre-match: if the un-minimised representative already matches a known finding and so
        // does its minimised form, it is a known finding. We always minimise + confirm at least
        // the first representative of each group (bounded).
        if examined >= max_groups {
            harness_errors.push(format!("more than {} distinct violation groups; remaining not examined: {}", max_groups, sig));
            continue;
        }
        examined += 1;
        // try the members of the group in run order until one reproduces in a fresh process (a
        // violation that depends on uncontrolled state, e.g. real malloc recycling under the `pass`
        // fill policy, may not; another member found under a controlled policy will)
        let mut confirmed: Option<PathBuf> = None;
        let mut last_err = String::new();
        for v in vs.iter().take(6) {
            let is_kill = v.viol.check == "liveness";
            let base = format!("{}-{}-{}", id, seed, v.run);
            let raw_path = dir.join(format!("{}.raw.json", base));
            let rf = ReplayFile {
                property: id.to_string(),
                check: v.viol.check.clone(),
                class: v.viol.class.clone(),
                signature: v.viol.full_sig(),
                key: v.viol.key.clone(),
                detail: v.viol.detail.clone(),
                verif_seed: seed,
                run: v.run,
                tier: tier.name().into(),
                minimised: false,
                reexecutions: 0,
                case_size_before: case_size(&v.case),
                case_size_after: case_size(&v.case),
                case: v.case.clone(),
                history: None,
            };
            std::fs::create_dir_all(&dir).unwrap();
            std::fs::write(&raw_path, serde_json::to_vec_pretty(&rf).unwrap()).unwrap();
            let final_path = replay_dir.join(format!("{}.json", base));
            let mut have_min = false;
            if !is_kill {
                let st = Command::new(self_exe()).arg("minimise").arg(id).arg(&raw_path).arg(&final_path).status().unwrap();
                have_min = st.code() == Some(0);
            }
            if !have_min {
                std::fs::copy(&raw_path, &final_path).unwrap();
            }
            let (ok, how) = replay_outer(&final_path);
            if ok {
                confirmed = Some(final_path);
                break;
            }
            // fall back to the un-minimised case before giving up on this member
            std::fs::copy(&raw_path, &final_path).unwrap();
            let (ok2, how2) = replay_outer(&final_path);
            if ok2 {
                confirmed = Some(final_path);
                break;
            }
            last_err = format!("run {}: {} / {}", v.run, how, how2);
            let _ = std::fs::remove_file(&final_path);
        }
        // no member reproduces alone: does it reproduce together with the runs the same worker process
        // executed before it (state outside any thread: statics, process-wide tables)? The window of
        // earlier runs is grown from the failing run backwards to the start of its chunk.
        if confirmed.is_none() {
            if let Some(v) = vs.iter().find(|v| v.viol.check != "liveness") {
                let chunk_start = (v.run / chunk) * chunk;
                let base = format!("{}-{}-{}", id, seed, v.run);
                let final_path = replay_dir.join(format!("{}.json", base));
                let mut back = 1u64;
                loop {
                    let from = v.run.saturating_sub(back).max(chunk_start);
                    let rf = ReplayFile {
                        property: id.to_string(),
                        check: v.viol.check.clone(),
                        class: v.viol.class.clone(),
                        signature: format!("{}|needs_process_history", v.viol.full_sig()),
                        key: v.viol.key.clone(),
                        detail: format!("{} [reproduces only after runs {}..{} of the same batch executed earlier in the same process: the result depends on process-wide state left by earlier library calls]", v.viol.detail, from, v.run),
                        verif_seed: seed,
                        run: v.run,
                        tier: tier.name().into(),
                        minimised: false,
                        reexecutions: 0,
                        case_size_before: case_size(&v.case),
                        case_size_after: case_size(&v.case),
                        case: v.case.clone(),
                        history: Some([from, v.run]),
                    };
                    std::fs::write(&final_path, serde_json::to_vec_pretty(&rf).unwrap()).unwrap();
                    let (ok, how) = replay_outer(&final_path);
                    if ok {
                        confirmed = Some(final_path.clone());
                        break;
                    }
                    last_err = format!("{}; with process history from run {}: {}", last_err, from, how);
                    if from == chunk_start {
                        let _ = std::fs::remove_file(&final_path);
                        break;
                    }
                    back *= 4;
                }
            }
        }
        let final_path = match confirmed {
            Some(p) => p,
            None => {
                harness_errors.push(format!("violation {} does not reproduce in a fresh process ({} member(s) tried; last: {})", sig, vs.len().min(6), last_err));
                continue;
            }
        };
        let frf: ReplayFile = serde_json::from_slice(&std::fs::read(&final_path).unwrap()).unwrap();
        if let Some(k) = kf.findings.iter().find(|k| matches_known(k, id, &frf)) {
            let e = known_matched.entry(k.id.clone()).or_insert((k.what.clone(), 0));
            e.1 += vs.len() as u64;
            let _ = std::fs::remove_file(&final_path);
        } else {
            new_violations.push((frf.signature.clone(), final_path));
        }
    }
    let _ = std::fs::remove_dir_all(&dir);

    // evidence
    let wall = t0.elapsed().as_secs_f64();
    let counters = &stats.counters;
    let unreached: Vec<String> = P::expected_counters(tier).into_iter().filter(|k| counters.get(k).copied().unwrap_or(0) == 0).collect();
    let faults: BTreeMap<String, u64> = counters.iter().filter(|(k, _)| k.starts_with("fault.")).map(|(k, v)| (k.trim_start_matches("fault.").to_string(), *v)).collect();
    let ev = json!({
        "property_id": id,
        "tier": tier.name(),
        "seed": seed,
        "level": "exploration",
        "coverage": {
            "evaluations": executed,
            "distinct_nontrivial": batch.distinct.len(),
            "nontrivial_runs": nontrivial,
            "rule": P::rule(),
            "samples": samples,
            "exhaustive": false,
            "runs": executed,
            "runs_per_hour": if wall > 0.0 { (executed as f64 / wall * 3600.0) as u64 } else { 0 },
            "seeds": { "root": seed, "derivation": "run i uses mix3(root, fnv(property id), i)", "first_run": 0, "last_run": runs.saturating_sub(1) },
            "steps": { "operations": counters.get("ops").copied().unwrap_or(0), "rng_draws": counters.get("rng_draws").copied().unwrap_or(0) },
            "simulated_time": "n/a — the code under test has no timers or deadlines; steps (operations, RNG draws) are reported instead",
            "faults_fired": faults,
            "reach": P::reach(counters),
            "unreached": unreached,
            "distinct_measure": "hash set of abstract case shapes (see rule), merged across workers",
            "components": P::components(),
            "determinism_selftest": { "runs": st_runs, "executions": 2, "worker_counts": [1, n_workers()], "mismatches": det_mismatch, "batch_log_hash": format!("{:016x}", batch.log_hash) },
            "known_findings_matched": known_matched.iter().map(|(k, (w, n))| json!({"id": k, "what": w, "occurrences": n})).collect::<Vec<_>>(),
            "violating_runs": viols_total,
            "violation_groups": groups.len(),
            "counters": counters.iter().filter(|(k, _)| !k.starts_with("bigram.")).collect::<BTreeMap<_, _>>(),
        },
        "assumptions": P::assumptions(),
        "wall_s": wall,
        "violations": new_violations.len(),
    });
    let evdir = std::env::var("CSIM_EVIDENCE_DIR").map(PathBuf::from).unwrap_or_else(|_| root().join("evidence"));
    std::fs::create_dir_all(&evdir).unwrap();
    std::fs::write(evdir.join(format!("{}.json", id)), serde_json::to_vec_pretty(&ev).unwrap()).unwrap();

    println!(
        "{} {}: runs={} distinct_nontrivial={} ops={} draws={} faults_fired={} wall={:.1}s",
        id, tier.name(), executed, batch.distinct.len(),
        counters.get("ops").copied().unwrap_or(0), counters.get("rng_draws").copied().unwrap_or(0),
        faults.values().sum::<u64>(), wall
    );
    if !unreached.is_empty() {
        println!("UNREACHED {}", unreached.join(","));
    }
    for (kid, (what, n)) in &known_matched {
        println!("KNOWN-FINDING: property={} {} [{}; {} occurrence(s) this run]", id, what, kid, n);
    }
    for (sig, path) in &new_violations {
        println!("VIOLATION property={} replay={}", id, path.display());
        println!("  signature: {}", sig);
    }
    if !new_violations.is_empty() {
        for h in &harness_errors {
            println!("HARNESS-NOTE {}", h);
        }
        return 1;
    }
    if let Some(m) = nondeterminism {
        harness_errors.push(m);
    }
    if !harness_errors.is_empty() {
        for h in &harness_errors {
            println!("HARNESS-ERROR {}", h);
        }
        return 2;
    }
    0
}

fn selftest_alea() -> i32 {
    // same mixture of calls as sim/alearef (built against the real crate, no [patch])
    let built = root().join("sim/alearef/target/alea_ref.txt");
    let committed = root().join("refdata/alea_ref.txt");
    let mut ok = true;
    let mut compared = 0;
    for p in [built, committed] {
        let txt = match std::fs::read_to_string(&p) {
            Ok(t) => t,
            Err(_) => continue,
        };
        compared += 1;
        for line in txt.lines() {
            let f: Vec<&str> = line.split_whitespace().collect();
            if f.len() != 3 {
                continue;
            }
            let sd = u64::from_str_radix(f[0], 16).unwrap();
            alea::sim::reset(12345);
            alea::set_seed(sd);
            let mut acc: u64 = 0xcbf29ce484222325;
            let mut mixin = |v: u64| {
                acc ^= v;
                acc = acc.wrapping_mul(0x100000001b3);
            };
            for i in 0..2000u64 {
                match i % 7 {
                    0 => mixin(alea::u64()),
                    1 => mixin(alea::f64().to_bits()),
                    2 => mixin(alea::i64_in_range(-3, 3 + (i as i64)) as u64),
                    3 => mixin(alea::u32() as u64),
                    4 => mixin(alea::u64_less_than(3 + i * 1_000_003)),
                    5 => mixin(alea::f64_in_range(-1.5, 2.5).to_bits()),
                    _ => mixin(alea::i32_in_range(-7, 1000) as u64),
                }
            }
            let got = format!("{:016x} {:016x} {:016x}", sd, acc, alea::get_seed());
            if got != line.trim() {
                println!("selftest alea: MISMATCH for seed {:016x} against {}", sd, p.display());
                ok = false;
            }
        }
    }
    if compared == 0 {
        die("no alea reference vectors found");
    }
    if ok {
        println!("selftest alea: sim-alea matches real alea 0.2.2 on {} reference file(s)", compared);
        0
    } else {
        2
    }
}

fn selftest_determinism(id: &str, n: u64) -> i32 {
    let seed = verif_seed();
    let tier = Tier::Quick;
    let chunk = with_prop!(id, P => P::chunk(tier)).unwrap_or_else(|| die("unknown property"));
    let dir = root().join("sim/target/run").join(format!("det-{}-{}", id, std::process::id()));
    let a = run_batch(id, tier, seed, n, chunk, 1, &dir, "a", true);
    let b = run_batch(id, tier, seed, n, (chunk / 3).max(1), 16, &dir, "b", true);
    let c = run_batch(id, tier, seed, n, (chunk / 5).max(1), 5, &dir, "c", true);
    let _ = std::fs::remove_dir_all(&dir);
    let mut bad = 0;
    for i in 0..a.per_run_logs.len() {
        if a.per_run_logs[i] != b.per_run_logs[i] || a.per_run_logs[i] != c.per_run_logs[i] {
            if bad < 5 {
                println!("determinism: run {} differs: {:016x} {:016x} {:016x}", i, a.per_run_logs[i], b.per_run_logs[i], c.per_run_logs[i]);
            }
            bad += 1;
        }
    }
    println!("selftest determinism {}: {} runs x 3 executions (workers 1/16/5, different chunking): {} mismatches", id, n, bad);
    if bad == 0 {
        0
    } else {
        2
    }
}

fn main() {
    let args: Vec<String> = std::env::args().collect();
    let a = |i: usize| -> &str { args.get(i).map(|s| s.as_str()).unwrap_or("") };
    let code = match a(1) {
        "check" => {
            let tier = Tier::parse(a(3)).unwrap_or_else(|| die("tier must be quick|thorough"));
            with_prop!(a(2), P => check::<P>(tier)).unwrap_or_else(|| die("unknown property id"))
        }
        "worker" => {
            let tier = Tier::parse(a(3)).unwrap();
            let seed: u64 = a(4).parse().unwrap();
            let s: u64 = a(5).parse().unwrap();
            let e: u64 = a(6).parse().unwrap();
            let skip: Vec<u64> = args[8..].iter().map(|x| x.parse().unwrap()).collect();
            with_prop!(a(2), P => worker::<P>(tier, seed, s, e, a(7), &skip)).unwrap()
        }
        "gencase" => {
            let tier = Tier::parse(a(3)).unwrap();
            let seed: u64 = a(4).parse().unwrap();
            let run: u64 = a(5).parse().unwrap();
            with_prop!(a(2), P => {
                let c = P::gen(seed, run, tier);
                println!("{}", serde_json::to_string_pretty(&c).unwrap());
                0
            })
            .unwrap()
        }
        "minimise" => with_prop!(a(2), P => minimise::<P>(a(3), a(4))).unwrap(),
        "replay-inner" => {
            let rf: ReplayFile = serde_json::from_slice(&std::fs::read(a(2)).unwrap_or_else(|_| die("cannot read replay file"))).unwrap_or_else(|e| die(&format!("bad replay file: {}", e)));
            let id = rf.property.clone();
            with_prop!(id.as_str(), P => replay_inner::<P>(&rf)).unwrap_or_else(|| die("unknown property in replay file"))
        }
        "replay" => {
            let (ok, how) = replay_outer(Path::new(a(2)));
            let rf: Option<ReplayFile> = std::fs::read(a(2)).ok().and_then(|b| serde_json::from_slice(&b).ok());
            println!("{}", how);
            if ok {
                println!("VIOLATION property={} replay={}", rf.map(|r| r.property).unwrap_or_default(), a(2));
                1
            } else {
                0
            }
        }
        "selftest" => match a(2) {
            "alea" => selftest_alea(),
            "determinism" => selftest_determinism(a(3), a(4).parse().unwrap_or(2000)),
            _ => die("selftest alea|determinism <ID> [n]"),
        },
        _ => {
            eprintln!("usage: csim check <ID> <quick|thorough> | replay <file> | selftest ...");
            2
        }
    };
    let _ = std::io::stdout().flush();
    std::process::exit(code);
}
