//! sim-alloc: the memory seam. Real `System` allocator; freshly handed-out bytes are filled
//! according to a per-thread policy chosen by the simulator, so that the content of
//! uninitialised (`set_len`) buffers is decided by the run's seed and not by malloc history.
//! The seam never allocates, locks, or reads a clock.

use std::alloc::{GlobalAlloc, Layout, System};
use std::cell::Cell;

pub const CANARY: u64 = 0x7FF8_C0DE_C0DE_C0DE;

#[derive(Clone, Copy, Debug, PartialEq, Eq, serde::Serialize, serde::Deserialize)]
pub enum Fill {
    /// untouched: whatever malloc recycles (what the test-suite sees)
    Pass,
    Zero,
    /// 0xFF..: a negative quiet NaN
    Ones,
    /// quiet NaN with a recognisable payload
    Canary,
    /// per-run pseudo-random words, half of them plausible finite doubles
    Junk,
}

impl Fill {
    pub const ALL: [Fill; 5] = [Fill::Pass, Fill::Zero, Fill::Ones, Fill::Canary, Fill::Junk];
    pub fn name(self) -> &'static str {
        match self {
            Fill::Pass => "pass",
            Fill::Zero => "zero",
            Fill::Ones => "ones",
            Fill::Canary => "canary",
            Fill::Junk => "junk",
        }
    }
    fn code(self) -> u8 {
        self as u8
    }
}

thread_local! {
    static POLICY: Cell<u8> = const { Cell::new(0) };
    static SCRIBBLE: Cell<bool> = const { Cell::new(false) };
    static JUNK: Cell<u64> = const { Cell::new(0x2545F4914F6CDD1D) };
    static FILLED: Cell<u64> = const { Cell::new(0) };
    static SCRIBBLED: Cell<u64> = const { Cell::new(0) };
}

pub fn set_policy(f: Fill, scribble_on_free: bool, junk_seed: u64) {
    POLICY.with(|p| p.set(f.code()));
    SCRIBBLE.with(|s| s.set(scribble_on_free));
    JUNK.with(|j| j.set(junk_seed | 1));
}
/// true when fresh bytes are decided by the simulator (any policy except `pass`)
pub fn deterministic_fill() -> bool {
    POLICY.with(|p| p.get()) != 0
}
pub fn reset_policy() {
    POLICY.with(|p| p.set(0));
    SCRIBBLE.with(|s| s.set(false));
}
/// (allocations filled, frees scribbled) on this thread since the last call
pub fn take_counts() -> (u64, u64) {
    let a = FILLED.with(|f| f.replace(0));
    let b = SCRIBBLED.with(|f| f.replace(0));
    (a, b)
}

#[inline]
unsafe fn fill_words(p: *mut u8, n: usize, word: impl Fn() -> u64) {
    let mut i = 0;
    while i + 8 <= n {
        let w = word().to_le_bytes();
        std::ptr::copy_nonoverlapping(w.as_ptr(), p.add(i), 8);
        i += 8;
    }
    if i < n {
        let w = word().to_le_bytes();
        std::ptr::copy_nonoverlapping(w.as_ptr(), p.add(i), n - i);
    }
}

#[inline]
fn junk_word() -> u64 {
    JUNK.try_with(|j| {
        let mut x = j.get();
        x ^= x << 13;
        x ^= x >> 7;
        x ^= x << 17;
        j.set(x);
        match x & 3 {
            // plausible small finite doubles
            0 => (((x >> 8) % 2001) as f64 / 8.0 - 125.0).to_bits(),
            1 => ((x >> 12) as f64 / (1u64 << 52) as f64).to_bits(),
            // arbitrary bit patterns (may be NaN / inf / huge)
            _ => x.wrapping_mul(0x9e3779b97f4a7c15),
        }
    })
    .unwrap_or(CANARY)
}

#[inline]
unsafe fn apply_fill(p: *mut u8, n: usize) {
    let pol = POLICY.try_with(|p| p.get()).unwrap_or(0);
    if pol == 0 || n == 0 {
        return;
    }
    match pol {
        1 => std::ptr::write_bytes(p, 0x00, n),
        2 => std::ptr::write_bytes(p, 0xFF, n),
        3 => fill_words(p, n, || CANARY),
        _ => fill_words(p, n, junk_word),
    }
    let _ = FILLED.try_with(|f| f.set(f.get() + 1));
}

pub struct SimAlloc;

unsafe impl GlobalAlloc for SimAlloc {
    #[inline]
    unsafe fn alloc(&self, layout: Layout) -> *mut u8 {
        let p = System.alloc(layout);
        if !p.is_null() {
            apply_fill(p, layout.size());
        }
        p
    }
    #[inline]
    unsafe fn alloc_zeroed(&self, layout: Layout) -> *mut u8 {
        System.alloc_zeroed(layout)
    }
    #[inline]
    unsafe fn dealloc(&self, ptr: *mut u8, layout: Layout) {
        if SCRIBBLE.try_with(|s| s.get()).unwrap_or(false) && layout.size() > 0 {
            fill_words(ptr, layout.size(), || CANARY);
            let _ = SCRIBBLED.try_with(|f| f.set(f.get() + 1));
        }
        System.dealloc(ptr, layout)
    }
    #[inline]
    unsafe fn realloc(&self, ptr: *mut u8, layout: Layout, new_size: usize) -> *mut u8 {
        let old = layout.size();
        let p = System.realloc(ptr, layout, new_size);
        if !p.is_null() && new_size > old {
            apply_fill(p.add(old), new_size - old);
        }
        p
    }
}
