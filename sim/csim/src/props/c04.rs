//! C04 — element-wise arithmetic and maps are exact at every length and operand form.
//! The environment that is simulated is the content of freshly allocated memory (the kernels
//! write into `set_len` buffers): every operation is executed under several allocator fill
//! policies; results must agree bit for bit with each other and with the scalar reference.
//! Runs 0..GRID enumerate (form x length 0..=40) exhaustively under all five policies; the
//! remaining runs are random programs whose results are fed back into a small pool.

use super::{Prop, Tier};
use crate::alloc_seam::{self, Fill};
use crate::harness::*;
use crate::prng::{mix3, str_id, Sm};
use compute::linalg::*;
use serde::{Deserialize, Serialize};
use serde_json::{json, Value};
use std::collections::BTreeMap;
use std::hint::black_box;

pub struct C04;

#[derive(Clone, Copy, Debug, Serialize, Deserialize, PartialEq)]
pub enum B {
    Add,
    Sub,
    Mul,
    Div,
}
pub const BS: [B; 4] = [B::Add, B::Sub, B::Mul, B::Div];
impl B {
    #[inline]
    fn ap(self, x: f64, y: f64) -> f64 {
        let (x, y) = (black_box(x), black_box(y));
        match self {
            B::Add => x + y,
            B::Sub => x - y,
            B::Mul => x * y,
            B::Div => x / y,
        }
    }
}

/// operand ownership: (left owned?, right owned?)
#[derive(Clone, Copy, Debug, Serialize, Deserialize, PartialEq)]
pub enum Own {
    VV,
    RR,
    VR,
    RV,
}
pub const OWNS: [Own; 4] = [Own::VV, Own::RR, Own::VR, Own::RV];

#[derive(Clone, Copy, Debug, Serialize, Deserialize, PartialEq)]
pub enum Red {
    Sum,
    SumM,
    Prod,
    ProdM,
    Dot,
    Norm,
    NormM,
    InfNorm,
    InfNormM,
    LogSumExp,
    LogSumExpM,
    LogMeanExp,
    LogMeanExpM,
    MatSum,
    MatNorm,
    MatProd,
}
pub const REDS: [Red; 16] = [
    Red::Sum, Red::SumM, Red::Prod, Red::ProdM, Red::Dot, Red::Norm, Red::NormM, Red::InfNorm, Red::InfNormM,
    Red::LogSumExp, Red::LogSumExpM, Red::LogMeanExp, Red::LogMeanExpM, Red::MatSum, Red::MatNorm, Red::MatProd,
];

#[derive(Clone, Copy, Debug, Serialize, Deserialize, PartialEq)]
pub enum Form {
    VV(B, Own),
    VS(B, bool),
    SV(B, bool),
    VAssignV(B, bool),
    VAssignS(B),
    VNeg,
    VMap(u8),
    VPowi(i32),
    VPowf(Fb),
    MM(B, Own),
    MS(B, bool),
    SM(B, bool),
    MAssignM(B, bool),
    MAssignS(B),
    MNeg,
    MMap(u8),
    MPowi(i32),
    MPowf(Fb),
    Reduce(Red),
    /// length / shape mismatch: must be rejected by a panic, operands untouched
    MisVV(B, Own),
    MisVAssign(B, bool),
    MisMM(B, Own),
    MisMAssign(B, bool),
}

pub const MAPS: [&str; 29] = [
    "ln", "ln_1p", "log10", "log2", "exp", "exp2", "exp_m1", "sin", "cos", "tan", "sinh", "cosh", "tanh", "asin",
    "acos", "atan", "asinh", "acosh", "atanh", "sqrt", "cbrt", "abs", "floor", "ceil", "to_radians",
    "to_degrees", "recip", "round", "signum",
];

macro_rules! map_dispatch {
    ($k:expr, $x:expr) => {
        match $k {
            0 => $x.ln(),
            1 => $x.ln_1p(),
            2 => $x.log10(),
            3 => $x.log2(),
            4 => $x.exp(),
            5 => $x.exp2(),
            6 => $x.exp_m1(),
            7 => $x.sin(),
            8 => $x.cos(),
            9 => $x.tan(),
            10 => $x.sinh(),
            11 => $x.cosh(),
            12 => $x.tanh(),
            13 => $x.asin(),
            14 => $x.acos(),
            15 => $x.atan(),
            16 => $x.asinh(),
            17 => $x.acosh(),
            18 => $x.atanh(),
            19 => $x.sqrt(),
            20 => $x.cbrt(),
            21 => $x.abs(),
            22 => $x.floor(),
            23 => $x.ceil(),
            24 => $x.to_radians(),
            25 => $x.to_degrees(),
            26 => $x.recip(),
            27 => $x.round(),
            _ => $x.signum(),
        }
    };
}

fn scalar_map(k: u8, x: f64) -> f64 {
    let x = black_box(x);
    map_dispatch!(k, x)
}

pub const POWI_EXPS: [i32; 15] = [-2, -1, 0, 1, 2, 3, 4, 5, 65, -77, 200, -300, i32::MIN, i32::MAX, -2147483647];
pub const POWF_EXPS: [f64; 10] = [2.0, 3.0, 0.5, -1.5, 2.5, 0.0, f64::NAN, f64::INFINITY, f64::NEG_INFINITY, 1.0];

pub fn all_forms() -> Vec<Form> {
    let mut f = vec![];
    for b in BS {
        for o in OWNS {
            f.push(Form::VV(b, o));
            f.push(Form::MM(b, o));
            f.push(Form::MisVV(b, o));
            f.push(Form::MisMM(b, o));
        }
        for owned in [true, false] {
            f.push(Form::VS(b, owned));
            f.push(Form::SV(b, owned));
            f.push(Form::VAssignV(b, owned));
            f.push(Form::MS(b, owned));
            f.push(Form::SM(b, owned));
            f.push(Form::MAssignM(b, owned));
            f.push(Form::MisVAssign(b, owned));
            f.push(Form::MisMAssign(b, owned));
        }
        f.push(Form::VAssignS(b));
        f.push(Form::MAssignS(b));
    }
    f.push(Form::VNeg);
    f.push(Form::MNeg);
    for k in 0..29u8 {
        f.push(Form::VMap(k));
        f.push(Form::MMap(k));
    }
    for e in POWI_EXPS {
        f.push(Form::VPowi(e));
        f.push(Form::MPowi(e));
    }
    for e in POWF_EXPS {
        f.push(Form::VPowf(Fb(e)));
        f.push(Form::MPowf(Fb(e)));
    }
    for r in REDS {
        f.push(Form::Reduce(r));
    }
    f
}

fn form_name(f: &Form) -> String {
    match f {
        Form::VMap(k) => format!("VMap({})", MAPS[*k as usize % 29]),
        Form::MMap(k) => format!("MMap({})", MAPS[*k as usize % 29]),
        Form::VPowf(e) => format!("VPowf({})", e.0),
        Form::MPowf(e) => format!("MPowf({})", e.0),
        other => format!("{:?}", other),
    }
}
fn form_class(f: &Form) -> &'static str {
    match f {
        Form::VV(..) => "vec_vec",
        Form::VS(..) => "vec_scalar",
        Form::SV(..) => "scalar_vec",
        Form::VAssignV(..) => "vec_assign_vec",
        Form::VAssignS(..) => "vec_assign_scalar",
        Form::VNeg => "vec_neg",
        Form::VMap(..) => "vec_map",
        Form::VPowi(..) => "vec_powi",
        Form::VPowf(..) => "vec_powf",
        Form::MM(..) => "mat_mat",
        Form::MS(..) => "mat_scalar",
        Form::SM(..) => "scalar_mat",
        Form::MAssignM(..) => "mat_assign_mat",
        Form::MAssignS(..) => "mat_assign_scalar",
        Form::MNeg => "mat_neg",
        Form::MMap(..) => "mat_map",
        Form::MPowi(..) => "mat_powi",
        Form::MPowf(..) => "mat_powf",
        Form::Reduce(..) => "reduction",
        Form::MisVV(..) => "mismatch_vec_vec",
        Form::MisVAssign(..) => "mismatch_vec_assign",
        Form::MisMM(..) => "mismatch_mat_mat",
        Form::MisMAssign(..) => "mismatch_mat_assign",
    }
}

#[derive(Clone, Debug, Serialize, Deserialize, PartialEq)]
pub struct StepE {
    pub form: Form,
    pub a: usize,
    pub b: usize,
    pub s: Fb,
    /// mismatch operand geometry: (other length delta, shape selector)
    pub alt: usize,
    /// 0 = operate on the whole pooled vectors; k > 0 = on their first k elements only (a shorter
    /// call after longer ones on the same thread: stale scratch space must not leak in)
    #[serde(default)]
    pub sub: usize,
}

#[derive(Clone, Debug, Serialize, Deserialize)]
pub struct Case {
    pub n: usize,
    pub rows: usize,
    pub init: Vec<Vec<Fb>>,
    pub steps: Vec<StepE>,
    pub fills: Vec<Fill>,
    pub scribble: bool,
    pub junk: Hx,
    pub grid: bool,
}

// ---- outcome of one form under one policy ------------------------------------------------------

#[derive(Clone, Debug, PartialEq)]
struct Outc {
    /// element-wise result (or the single reduction value)
    res: Vec<u64>,
    shape: (usize, usize),
    /// operands as observed after the call (borrowed operands / assignment target)
    a_after: Option<Vec<u64>>,
    b_after: Option<Vec<u64>>,
}

/// bit patterns with NaN canonicalised: IEEE-754 (and Rust) leave the sign and payload of a NaN
/// result unspecified, so NaNs are compared by position only
fn bits(v: &[f64]) -> Vec<u64> {
    v.iter().map(|x| if x.is_nan() { 0x7ff8_0000_0000_0000 } else { x.to_bits() }).collect()
}

/// left operands as a caller may hand them over: exactly sized, or (bit 3 of `alt`) grown into a buffer
/// with spare capacity (push / with_capacity + extend / truncate leave such buffers behind)
fn vec_of(a: &[f64], alt: usize) -> Vector {
    if (alt / 8) % 2 == 1 {
        let mut v = Vec::with_capacity(a.len() + 9 + alt % 7);
        v.extend_from_slice(a);
        Vector::new(v)
    } else {
        Vector::new(a.to_vec())
    }
}
fn mat_of(a: &[f64], rows: usize, alt: usize) -> Matrix {
    if (alt / 8) % 2 == 1 && !a.is_empty() {
        let mut v = Vec::with_capacity(a.len() + 9 + alt % 7);
        v.extend_from_slice(a);
        Matrix::new(v, rows as i32, (a.len() / rows) as i32)
    } else {
        mk_matrix(a, rows)
    }
}

fn mk_matrix(d: &[f64], rows: usize) -> Matrix {
    if d.is_empty() {
        Matrix::empty()
    } else {
        Matrix::new(d.to_vec(), rows as i32, (d.len() / rows) as i32)
    }
}

macro_rules! binop {
    ($b:expr, $l:expr, $r:expr) => {
        match $b {
            B::Add => $l + $r,
            B::Sub => $l - $r,
            B::Mul => $l * $r,
            B::Div => $l / $r,
        }
    };
}
macro_rules! assignop {
    ($b:expr, $l:expr, $r:expr) => {
        match $b {
            B::Add => $l += $r,
            B::Sub => $l -= $r,
            B::Mul => $l *= $r,
            B::Div => $l /= $r,
        }
    };
}

/// mismatch geometry for matrices: pairs that are not broadcast-compatible (all dims >= 2)
const MIS_SHAPES: [((usize, usize), (usize, usize)); 11] = [
    ((2, 3), (3, 2)), ((2, 3), (2, 2)), ((3, 3), (2, 2)), ((2, 4), (4, 2)), ((4, 4), (2, 8)), ((3, 5), (5, 3)),
    // a dimension of 1 on one side, the other dimension still incompatible
    ((1, 3), (3, 4)), ((3, 1), (4, 3)), ((1, 3), (1, 4)), ((2, 1), (3, 1)), ((1, 4), (3, 5)),
];
/// for compound assignment any unequal shape must be rejected (no broadcasting there)
const MIS_ASSIGN_SHAPES: [((usize, usize), (usize, usize)); 7] =
    [((2, 3), (3, 2)), ((1, 6), (6, 1)), ((4, 1), (2, 2)), ((2, 3), (1, 3)), ((3, 3), (1, 1)), ((2, 2), (2, 3)), ((2, 8), (4, 4))];

/// the in-place change made between the two evaluations of a reduction: an interior position and
/// its new value (None for fewer than three elements)
fn poke_of(a: &[f64]) -> Option<(usize, f64)> {
    if a.len() < 3 {
        return None;
    }
    let k = a.len() / 2;
    let nv = if a[k].is_finite() && a[k].abs() < 1e6 { a[k] + 1.0 } else { 2.5 };
    Some((k, nv))
}

/// a second in-place change, made after the first: any interior position other than the middle
/// one (derived from the step's `alt`, so that over a batch every interior position is visited)
fn poke2_of(a: &[f64], alt: usize) -> Option<(usize, f64)> {
    let n = a.len();
    if n < 4 {
        return None;
    }
    let mut k = 1 + alt.wrapping_mul(7919) % (n - 2);
    if k == n / 2 {
        k = if k + 1 < n - 1 { k + 1 } else { 1 };
    }
    if k == n / 2 || k == 0 || k >= n - 1 {
        return None;
    }
    let nv = if a[k].is_finite() && a[k].abs() < 1e6 { a[k] - 0.75 } else { -1.5 };
    Some((k, nv))
}

fn run_form(f: &Form, a: &[f64], b: &[f64], s: f64, rows: usize, alt: usize, alias: bool) -> Result<Outc, String> {
    let n = a.len();
    let cols = if n == 0 { 0 } else { n / rows };
    let mshape = if n == 0 { (0, 0) } else { (rows, cols) };
    match *f {
        Form::VV(op, Own::RR) if alias => {
            // both operands are the SAME object
            let x = vec_of(a, alt);
            catch(move || {
                let r = binop!(op, &x, &x);
                Outc { res: bits(&r), shape: (1, n), a_after: Some(bits(&x)), b_after: Some(bits(&x)) }
            })
        }
        Form::MM(op, Own::RR) if alias => {
            let x = mat_of(a, rows, alt);
            catch(move || {
                let r = binop!(op, &x, &x);
                if (x.nrows, x.ncols) != mshape {
                    panic!("csim: operand shape changed to {}x{}", x.nrows, x.ncols);
                }
                Outc { res: bits(&r.data), shape: (r.nrows, r.ncols), a_after: Some(bits(&x.data)), b_after: Some(bits(&x.data)) }
            })
        }
        Form::VV(op, own) => {
            let (x, y) = (vec_of(a, alt), Vector::new(b.to_vec()));
            catch(move || match own {
                Own::VV => Outc { res: bits(&binop!(op, x, y)), shape: (1, n), a_after: None, b_after: None },
                Own::RR => {
                    let r = binop!(op, &x, &y);
                    Outc { res: bits(&r), shape: (1, n), a_after: Some(bits(&x)), b_after: Some(bits(&y)) }
                }
                Own::VR => {
                    let r = binop!(op, x, &y);
                    Outc { res: bits(&r), shape: (1, n), a_after: None, b_after: Some(bits(&y)) }
                }
                Own::RV => {
                    let r = binop!(op, &x, y);
                    Outc { res: bits(&r), shape: (1, n), a_after: Some(bits(&x)), b_after: None }
                }
            })
        }
        Form::VS(op, owned) => {
            let x = vec_of(a, alt);
            catch(move || {
                if owned {
                    Outc { res: bits(&binop!(op, x, s)), shape: (1, n), a_after: None, b_after: None }
                } else {
                    let r = binop!(op, &x, s);
                    Outc { res: bits(&r), shape: (1, n), a_after: Some(bits(&x)), b_after: None }
                }
            })
        }
        Form::SV(op, owned) => {
            let x = vec_of(a, alt);
            catch(move || {
                if owned {
                    Outc { res: bits(&binop!(op, s, x)), shape: (1, n), a_after: None, b_after: None }
                } else {
                    let r = binop!(op, s, &x);
                    Outc { res: bits(&r), shape: (1, n), a_after: Some(bits(&x)), b_after: None }
                }
            })
        }
        Form::VAssignV(op, rhs_owned) => {
            let (mut x, y) = (vec_of(a, alt), Vector::new(b.to_vec()));
            catch(move || {
                if rhs_owned {
                    assignop!(op, x, y);
                    Outc { res: bits(&x), shape: (1, n), a_after: None, b_after: None }
                } else {
                    assignop!(op, x, &y);
                    Outc { res: bits(&x), shape: (1, n), a_after: None, b_after: Some(bits(&y)) }
                }
            })
        }
        Form::VAssignS(op) => {
            let mut x = vec_of(a, alt);
            catch(move || {
                assignop!(op, x, s);
                Outc { res: bits(&x), shape: (1, n), a_after: None, b_after: None }
            })
        }
        Form::VNeg => {
            let x = vec_of(a, alt);
            catch(move || Outc { res: bits(&(-x)), shape: (1, n), a_after: None, b_after: None })
        }
        Form::VMap(k) => {
            let x = vec_of(a, alt);
            catch(move || {
                let r: Vector = map_dispatch!(k, x);
                Outc { res: bits(&r), shape: (1, n), a_after: Some(bits(&x)), b_after: None }
            })
        }
        Form::VPowi(e) => {
            let x = vec_of(a, alt);
            catch(move || {
                let r = x.powi(e);
                Outc { res: bits(&r), shape: (1, n), a_after: Some(bits(&x)), b_after: None }
            })
        }
        Form::VPowf(e) => {
            let x = vec_of(a, alt);
            catch(move || {
                let r = x.powf(e.0);
                Outc { res: bits(&r), shape: (1, n), a_after: Some(bits(&x)), b_after: None }
            })
        }
        Form::MM(op, own) => {
            let (x, y) = (mat_of(a, rows, alt), mk_matrix(b, rows));
            catch(move || {
                let (r, aa, bb) = match own {
                    Own::VV => (binop!(op, x, y), None, None),
                    Own::RR => {
                        let r = binop!(op, &x, &y);
                        (r, Some(x), Some(y))
                    }
                    Own::VR => {
                        let r = binop!(op, x, &y);
                        (r, None, Some(y))
                    }
                    Own::RV => {
                        let r = binop!(op, &x, y);
                        (r, Some(x), None)
                    }
                };
                for m in [&aa, &bb].into_iter().flatten() {
                    if (m.nrows, m.ncols) != mshape {
                        panic!("csim: operand shape changed to {}x{}", m.nrows, m.ncols);
                    }
                }
                Outc { res: bits(&r.data), shape: (r.nrows, r.ncols), a_after: aa.map(|m| bits(&m.data)), b_after: bb.map(|m| bits(&m.data)) }
            })
        }
        Form::MS(op, owned) | Form::SM(op, owned) => {
            let left_scalar = matches!(f, Form::SM(..));
            let x = mat_of(a, rows, alt);
            catch(move || {
                let (r, aa) = match (left_scalar, owned) {
                    (false, true) => (binop!(op, x, s), None),
                    (false, false) => {
                        let r = binop!(op, &x, s);
                        (r, Some(x))
                    }
                    (true, true) => (binop!(op, s, x), None),
                    (true, false) => {
                        let r = binop!(op, s, &x);
                        (r, Some(x))
                    }
                };
                if let Some(m) = &aa {
                    if (m.nrows, m.ncols) != mshape {
                        panic!("csim: operand shape changed to {}x{}", m.nrows, m.ncols);
                    }
                }
                Outc { res: bits(&r.data), shape: (r.nrows, r.ncols), a_after: aa.map(|m| bits(&m.data)), b_after: None }
            })
        }
        Form::MAssignM(op, rhs_owned) => {
            let (mut x, y) = (mat_of(a, rows, alt), mk_matrix(b, rows));
            catch(move || {
                if rhs_owned {
                    assignop!(op, x, y);
                    Outc { res: bits(&x.data), shape: (x.nrows, x.ncols), a_after: None, b_after: None }
                } else {
                    assignop!(op, x, &y);
                    Outc { res: bits(&x.data), shape: (x.nrows, x.ncols), a_after: None, b_after: Some(bits(&y.data)) }
                }
            })
        }
        Form::MAssignS(op) => {
            let mut x = mat_of(a, rows, alt);
            catch(move || {
                assignop!(op, x, s);
                Outc { res: bits(&x.data), shape: (x.nrows, x.ncols), a_after: None, b_after: None }
            })
        }
        Form::MNeg => {
            let x = mat_of(a, rows, alt);
            catch(move || {
                let r = -x;
                Outc { res: bits(&r.data), shape: (r.nrows, r.ncols), a_after: None, b_after: None }
            })
        }
        Form::MMap(k) => {
            let x = mat_of(a, rows, alt);
            catch(move || {
                let r: Matrix = map_dispatch!(k, x);
                Outc { res: bits(&r.data), shape: (r.nrows, r.ncols), a_after: Some(bits(&x.data)), b_after: None }
            })
        }
        Form::MPowi(e) => {
            let x = mat_of(a, rows, alt);
            catch(move || {
                let r = x.powi(e);
                Outc { res: bits(&r.data), shape: (r.nrows, r.ncols), a_after: Some(bits(&x.data)), b_after: None }
            })
        }
        Form::MPowf(e) => {
            let x = mat_of(a, rows, alt);
            catch(move || {
                let r = x.powf(e.0);
                Outc { res: bits(&r.data), shape: (r.nrows, r.ncols), a_after: Some(bits(&x.data)), b_after: None }
            })
        }
        Form::Reduce(red) => {
            let (av, bv) = (a.to_vec(), b.to_vec());
            catch(move || {
                // one live object per call family; the reduction is taken twice on the SAME storage,
                // with one interior element changed in place in between (first and last element,
                // address and length stay as they were): the second answer must follow the data
                let mut xv = Vector::new(av.clone());
                let mut xm = if matches!(red, Red::InfNormM | Red::MatSum | Red::MatNorm | Red::MatProd) { Some(mk_matrix(&av, rows)) } else { None };
                let eval = |xv: &Vector, xm: &Option<Matrix>| match red {
                    Red::Sum => sum(xv.data()),
                    Red::SumM => xv.sum(),
                    Red::Prod => prod(xv.data()),
                    Red::ProdM => xv.prod(),
                    Red::Dot => dot(xv.data(), &bv),
                    Red::Norm => norm(xv.data()),
                    Red::NormM => xv.norm(),
                    Red::InfNorm => inf_norm(xv.data(), rows),
                    Red::InfNormM => xm.as_ref().unwrap().inf_norm(),
                    Red::LogSumExp => logsumexp(xv.data()),
                    Red::LogSumExpM => xv.logsumexp(),
                    Red::LogMeanExp => logmeanexp(xv.data()),
                    Red::LogMeanExpM => xv.logmeanexp(),
                    Red::MatSum => xm.as_ref().unwrap().sum(),
                    Red::MatNorm => xm.as_ref().unwrap().norm(),
                    Red::MatProd => xm.as_ref().unwrap().prod(),
                };
                // environment: a request on the same thread that is not a matrix (length not a multiple
                // of the row count) comes first; whatever it does, its unwind is caught and the
                // well-formed request that follows must not be affected by it
                if matches!(red, Red::InfNorm) && rows >= 2 && alt % 3 == 0 {
                    let mut junk = av.clone();
                    junk.push(1234.5);
                    while junk.len() % rows == 0 || junk.len() <= rows {
                        junk.push(1234.5);
                    }
                    let _ = catch(|| inf_norm(&junk, rows));
                }
                let v = eval(&xv, &xm);
                let after = bits(match &xm { Some(m) => m.data().data(), None => xv.data() });
                let mut res = vec![v];
                if let Some((k, nv)) = poke_of(&av) {
                    xv[k] = nv;
                    if let Some(m) = xm.as_mut() {
                        m.data_mut()[k] = nv;
                    }
                    res.push(eval(&xv, &xm));
                    if let Some((k2, nv2)) = poke2_of(&av, alt) {
                        xv[k2] = nv2;
                        if let Some(m) = xm.as_mut() {
                            m.data_mut()[k2] = nv2;
                        }
                        res.push(eval(&xv, &xm));
                    }
                }
                Outc { res: bits(&res), shape: (1, 1), a_after: Some(after), b_after: None }
            })
        }
        Form::MisVV(op, own) => {
            if (alt / 4) % 2 == 1 {
                // the slice-level reduction of two operands of different length that start at the SAME address
                let buf: Vec<f64> = (0..n + 3).map(|i| i as f64 + 0.5).collect();
                if let Ok(v) = catch(|| dot(&buf[..n + 2], &buf[..n])) {
                    return Ok(Outc { res: bits(&[v]), shape: (1, 0), a_after: None, b_after: None });
                }
            }
            let other: Vec<f64> = (0..(n + 1 + alt % 9)).map(|i| i as f64 + 0.5).collect();
            let (swap, olen) = (alt % 2 == 1, other.len());
            let (l, r) = if swap { (other.clone(), a.to_vec()) } else { (a.to_vec(), other.clone()) };
            let (x, y) = (Vector::new(l.clone()), Vector::new(r.clone()));
            let _ = olen;
            catch(move || match own {
                Own::VV => Outc { res: bits(&binop!(op, x, y)), shape: (1, 0), a_after: None, b_after: None },
                Own::RR => {
                    let r = catch(|| bits(&binop!(op, &x, &y)));
                    reject_or(r, Some(&x), Some(&y))
                }
                Own::VR => {
                    let yy = &y;
                    let r = catch(move || bits(&binop!(op, x, yy)));
                    reject_or(r, None, Some(&y))
                }
                Own::RV => {
                    let xx = &x;
                    let r = catch(move || bits(&binop!(op, xx, y)));
                    reject_or(r, Some(&x), None)
                }
            })
        }
        Form::MisVAssign(op, rhs_owned) => {
            let other: Vec<f64> = if n >= 65_536 {
                // bulk paths work in blocks: the other operand is a whole number of 8192-element blocks
                let m = (n / 8192) * 8192;
                let m = if m != n && alt % 2 == 0 { m } else { m + 8192 };
                (0..m).map(|i| i as f64 - 1.5).collect()
            } else if alt % 2 == 0 {
                (0..(n + 1 + alt % 9)).map(|i| i as f64 - 1.5).collect()
            } else {
                (0..n.saturating_sub(1 + alt % 3)).map(|i| i as f64 - 1.5).collect()
            };
            if other.len() == n {
                return Ok(Outc { res: vec![], shape: (9, 9), a_after: None, b_after: None });
            }
            let (mut x, y) = (vec_of(a, alt), Vector::new(other));
            catch(move || {
                let r = if rhs_owned {
                    let yy = y.clone();
                    let xm = &mut x;
                    catch(move || {
                        assignop!(op, *xm, yy);
                        vec![]
                    })
                } else {
                    let (xm, yy) = (&mut x, &y);
                    catch(move || {
                        assignop!(op, *xm, yy);
                        vec![]
                    })
                };
                reject_or(r, Some(&x), Some(&y))
            })
        }
        Form::MisMM(op, own) => {
            let ((r1, c1), (r2, c2)) = MIS_SHAPES[alt % MIS_SHAPES.len()];
            let d1: Vec<f64> = (0..r1 * c1).map(|i| i as f64 + 1.0).collect();
            let d2: Vec<f64> = (0..r2 * c2).map(|i| 10.0 - i as f64).collect();
            let (x, y) = (Matrix::new(d1, r1 as i32, c1 as i32), Matrix::new(d2, r2 as i32, c2 as i32));
            if (alt / 16) % 2 == 1 {
                // environment: a LEGAL stacked combination first (one row against r2 rows), then the
                // same illegal pair once through borrowed operands; the request below is the retry
                let row = Matrix::new((0..c2).map(|i| i as f64).collect::<Vec<f64>>(), 1, c2 as i32);
                let yy = y.clone();
                let _ = catch(move || bits(&binop!(op, &row, &yy).data));
                let (xx, yy) = (x.clone(), y.clone());
                if let Ok(v) = catch(move || bits(&binop!(op, &xx, &yy).data)) {
                    return Ok(Outc { res: v, shape: (1, 0), a_after: None, b_after: None });
                }
            }
            catch(move || match own {
                Own::VV => Outc { res: bits(&binop!(op, x, y).data), shape: (1, 0), a_after: None, b_after: None },
                Own::RR => {
                    let r = catch(|| bits(&binop!(op, &x, &y).data));
                    reject_or(r, Some(&x.data), Some(&y.data))
                }
                Own::VR => {
                    let yy = &y;
                    let r = catch(move || bits(&binop!(op, x, yy).data));
                    reject_or(r, None, Some(&y.data))
                }
                Own::RV => {
                    let xx = &x;
                    let r = catch(move || bits(&binop!(op, xx, y).data));
                    reject_or(r, Some(&x.data), None)
                }
            })
        }
        Form::MisMAssign(op, rhs_owned) => {
            let ((r1, c1), (r2, c2)) = MIS_ASSIGN_SHAPES[alt % MIS_ASSIGN_SHAPES.len()];
            let d1: Vec<f64> = (0..r1 * c1).map(|i| i as f64 + 1.0).collect();
            let d2: Vec<f64> = (0..r2 * c2).map(|i| 10.0 - i as f64).collect();
            let (mut x, y) = (Matrix::new(d1, r1 as i32, c1 as i32), Matrix::new(d2, r2 as i32, c2 as i32));
            catch(move || {
                let r = if rhs_owned {
                    let yy = y.clone();
                    let xm = &mut x;
                    catch(move || {
                        assignop!(op, *xm, yy);
                        vec![]
                    })
                } else {
                    let (xm, yy) = (&mut x, &y);
                    catch(move || {
                        assignop!(op, *xm, yy);
                        vec![]
                    })
                };
                if (x.nrows, x.ncols) != (r1, c1) {
                    panic!("csim: target shape changed");
                }
                reject_or(r, Some(&x.data), Some(&y.data))
            })
        }
    }
}

/// For mismatch forms: an inner Err (the expected rejection) becomes an outcome with shape (0,0)
/// carrying the operands as observed afterwards; an inner Ok means "produced a value".
fn reject_or(r: Result<Vec<u64>, String>, x: Option<&Vector>, y: Option<&Vector>) -> Outc {
    match r {
        Err(_) => Outc { res: vec![], shape: (0, 0), a_after: x.map(|v| bits(v)), b_after: y.map(|v| bits(v)) },
        Ok(v) => Outc { res: v, shape: (1, 0), a_after: None, b_after: None },
    }
}

// ---- reference ---------------------------------------------------------------------------------

fn two_sum(a: f64, b: f64) -> (f64, f64) {
    let s = a + b;
    let bb = s - a;
    (s, (a - (s - bb)) + (b - bb))
}
/// double-double accumulation of sum(x_i * y_i) (y = 1 for plain sums); also returns sum |x_i y_i|
fn dd_dot(x: &[f64], y: Option<&[f64]>) -> (f64, f64) {
    let (mut hi, mut lo, mut abs) = (0.0f64, 0.0f64, 0.0f64);
    for i in 0..x.len() {
        let (p, e) = match y {
            Some(y) => {
                let p = x[i] * y[i];
                (p, x[i].mul_add(y[i], -p))
            }
            None => (x[i], 0.0),
        };
        let (s, t) = two_sum(hi, p);
        hi = s;
        lo += t + e;
        abs += p.abs();
    }
    (hi + lo, abs)
}

const U: f64 = 1.1102230246251565e-16;

/// Check a reduction value against its definition within the any-order rounding bound.
fn check_reduction(red: Red, a: &[f64], b: &[f64], rows: usize, got: f64) -> Result<(), String> {
    let n = a.len() as f64;
    if matches!(red, Red::Prod | Red::ProdM | Red::MatProd) {
        // order-independent IEEE facts about a product: a NaN factor, or an exact zero together
        // with an infinity, give NaN; an exact zero among finite factors gives (+-)0
        let has_nan = a.iter().any(|x| x.is_nan());
        let has_zero = a.iter().any(|x| *x == 0.0);
        let has_inf = a.iter().any(|x| x.is_infinite());
        if (has_nan || (has_zero && has_inf)) && !got.is_nan() {
            return Err(format!("prod = {:e} although the factors contain {}", got, if has_nan { "a NaN" } else { "an exact zero and an infinity" }));
        }
        // (only when no ordering of the factors can overflow on the way)
        let growth: f64 = a.iter().filter(|x| **x != 0.0).map(|x| x.abs().log2().max(0.0)).sum();
        if has_zero && !has_inf && !has_nan && growth < 1000.0 && got != 0.0 {
            return Err(format!("prod = {:e} although a factor is exactly zero and all factors are finite", got));
        }
    }
    let logdom = matches!(red, Red::LogSumExp | Red::LogSumExpM | Red::LogMeanExp | Red::LogMeanExpM);
    let finite_in = if logdom {
        a.iter().all(|x| x.is_finite() || *x == f64::NEG_INFINITY) && a.iter().any(|x| x.is_finite())
    } else {
        a.iter().all(|x| x.is_finite()) && (red != Red::Dot || b.iter().all(|x| x.is_finite()))
    };
    if !finite_in {
        return Ok(()); // definition with non-finite inputs is not pinned down
    }
    let tiny = 1e-300;
    match red {
        Red::Sum | Red::SumM | Red::MatSum => {
            let (r, abs) = dd_dot(a, None);
            let tol = (n + 1.0) * U * abs * 1.01 + tiny;
            if !r.is_finite() || abs > 1e300 {
                return Ok(());
            }
            if !((got - r).abs() <= tol) {
                return Err(format!("sum = {:e}, definition {:e}, bound {:e}", got, r, tol));
            }
        }
        Red::Dot | Red::Norm | Red::NormM | Red::MatNorm => {
            let y = if red == Red::Dot { b } else { a };
            let (r, abs) = dd_dot(a, Some(y));
            if !r.is_finite() || abs > 1e300 || a.iter().chain(y.iter()).any(|x| x.abs() > 1e150 || (*x != 0.0 && x.abs() < 1e-150)) {
                return Ok(());
            }
            let g = (n + 2.0) * U / (1.0 - (n + 2.0) * U);
            if red == Red::Dot {
                let tol = g * abs * 1.01 + tiny;
                if !((got - r).abs() <= tol) {
                    return Err(format!("dot = {:e}, definition {:e}, bound {:e}", got, r, tol));
                }
            } else {
                let rn = r.sqrt();
                let tol = (g + 2.0 * U) * rn * 1.01 + tiny;
                if !((got - rn).abs() <= tol) {
                    return Err(format!("norm = {:e}, definition {:e}, bound {:e}", got, rn, tol));
                }
            }
        }
        Red::Prod | Red::ProdM | Red::MatProd => {
            if a.len() > 400 || a.iter().any(|x| x.abs() < 0.25 || x.abs() > 4.0) {
                return Ok(());
            }
            // reference in log-free double-double style: multiply with error compensation
            let (mut hi, mut lo) = (1.0f64, 0.0f64);
            for x in a {
                let p = hi * x;
                let e = hi.mul_add(*x, -p);
                lo = lo * x + e;
                hi = p;
            }
            let r = hi + lo;
            let tol = (n + 1.0) * U * r.abs() * 1.05 + tiny;
            if !((got - r).abs() <= tol) {
                return Err(format!("prod = {:e}, definition {:e}, bound {:e}", got, r, tol));
            }
        }
        Red::InfNorm | Red::InfNormM => {
            if a.is_empty() {
                return Ok(());
            }
            let cols = a.len() / rows;
            // near overflow the row sums are not representable: nothing to decide
            if !(a.iter().map(|x| x.abs()).sum::<f64>() < 1e300) {
                return Ok(());
            }
            let mut best = f64::NEG_INFINITY;
            let mut bestabs = 0.0;
            for i in 0..rows {
                let row: Vec<f64> = a[i * cols..(i + 1) * cols].iter().map(|x| x.abs()).collect();
                let (r, abs) = dd_dot(&row, None);
                if r > best {
                    best = r;
                    bestabs = abs;
                }
            }
            if !best.is_finite() {
                return Ok(());
            }
            let tol = (cols as f64 + 1.0) * U * bestabs * 1.01 + tiny;
            if !((got - best).abs() <= tol) {
                return Err(format!("inf_norm = {:e}, definition {:e}, bound {:e}", got, best, tol));
            }
        }
        Red::LogSumExp | Red::LogSumExpM | Red::LogMeanExp | Red::LogMeanExpM => {
            if a.is_empty() {
                return Ok(());
            }
            let m = a.iter().cloned().fold(f64::NEG_INFINITY, f64::max);
            let terms: Vec<f64> = a.iter().map(|x| (x - m).exp()).collect();
            let (s, _) = dd_dot(&terms, None);
            let mean = matches!(red, Red::LogMeanExp | Red::LogMeanExpM);
            let r = m + if mean { (s / n).ln() } else { s.ln() };
            // errors: one rounding per shifted argument (weighted by |d| e^d <= 1/e), one per exp, (n-1) u
            // for the sum in any order, one for ln, one for the final addition: below 1.5 (n + 4) u (1 + |r|)
            let tol = 2.0 * (n + 4.0) * U * (1.0 + r.abs());
            if !got.is_finite() {
                return Err(format!("log-domain reduction of finite inputs (max {:e}, n {}) is {:e}; definition {:e}", m, a.len(), got, r));
            }
            if !((got - r).abs() <= tol) {
                return Err(format!("log-domain reduction = {:e}, definition {:e}, bound {:e} (max {:e}, n {})", got, r, tol, m, a.len()));
            }
        }
    }
    Ok(())
}

/// reference element-wise result: the scalar f64 operation per position
fn reference(f: &Form, a: &[f64], b: &[f64], s: f64) -> Option<Vec<f64>> {
    let n = a.len();
    Some(match *f {
        Form::VV(op, _) | Form::MM(op, _) | Form::VAssignV(op, _) | Form::MAssignM(op, _) => (0..n).map(|i| op.ap(a[i], b[i])).collect(),
        Form::VS(op, _) | Form::MS(op, _) | Form::VAssignS(op) | Form::MAssignS(op) => (0..n).map(|i| op.ap(a[i], s)).collect(),
        Form::SV(op, _) | Form::SM(op, _) => (0..n).map(|i| op.ap(s, a[i])).collect(),
        Form::VNeg | Form::MNeg => a.iter().map(|x| -black_box(*x)).collect(),
        Form::VMap(k) | Form::MMap(k) => a.iter().map(|x| scalar_map(k, *x)).collect(),
        Form::VPowi(e) | Form::MPowi(e) => a.iter().map(|x| black_box(*x).powi(black_box(e))).collect(),
        Form::VPowf(e) | Form::MPowf(e) => a.iter().map(|x| black_box(*x).powf(black_box(e.0))).collect(),
        _ => return None,
    })
}

fn is_matrix_form(f: &Form) -> bool {
    matches!(f, Form::MM(..) | Form::MS(..) | Form::SM(..) | Form::MAssignM(..) | Form::MAssignS(..) | Form::MNeg | Form::MMap(..) | Form::MPowi(..) | Form::MPowf(..))
}

// ---- generation --------------------------------------------------------------------------------

fn gen_val(r: &mut Sm, special: bool) -> f64 {
    if special && r.chance(0.12) {
        return *r.pick(&[0.0, -0.0, f64::INFINITY, f64::NEG_INFINITY, f64::NAN, 5e-324, -1e-310, f64::MAX, f64::MIN_POSITIVE, -f64::MAX, 1.0, -1.0, 0.49999999999999994, -0.49999999999999994, 0.5, -0.5, 1.5, 2.5, 4503599627370497.0, -4503599627370497.0, 9007199254740991.0]);
    }
    match r.below(6) {
        0 => r.range(-9, 9) as f64,
        1 => (r.range(-4000, 4000) as f64) / 128.0,
        2 => (r.f64() - 0.5) * 2e3,
        3 => r.f64() * 2.0 - 1.0,
        4 => (r.f64() * 4.0 - 2.0).exp2() * if r.chance(0.5) { -1.0 } else { 1.0 },
        _ => *r.pick(&[0.87, 1.27, 2.17, 0.1, 0.3, 1.0 / 3.0, 1e-8, 1e8, 1.0 + 1e-9, 1.0 - 2e-10, -1.0 - 3e-10, 1.0 + f64::EPSILON, -1.0 + 5e-8]),
    }
}

/// a scalar operand: as gen_val, plus powers of two at the ends of the exponent range (exact
/// reciprocals exist for all of them except 2^1023 and the subnormal ones)
fn gen_scalar(r: &mut Sm, special: bool) -> f64 {
    if special && r.chance(0.06) {
        let e = *r.pick(&[1023i32, 1022, -1022, -1023, -1074, 512, -512, 3, 4, 60, -1, 0]);
        let v = if e >= -1022 { f64::from_bits(((e + 1023) as u64) << 52) } else { f64::from_bits(1u64 << (e + 1074)) };
        // the power of two itself or one of its two neighbours
        let v = match r.below(4) {
            0 if v.is_normal() && e < 1023 => f64::from_bits(v.to_bits() + 1),
            1 if v.is_normal() => f64::from_bits(v.to_bits() - 1),
            _ => v,
        };
        return if r.chance(0.5) { v } else { -v };
    }
    gen_val(r, special)
}

fn gen_vec(r: &mut Sm, n: usize, kind: u8) -> Vec<f64> {
    match kind {
        // log-domain: large magnitude, clustered
        2 => {
            let base = match r.below(4) {
                0 => *r.pick(&[0.0, 1.0, -1.0, 50.0, -50.0, 300.0, -300.0, 700.0, 705.0, 708.0, 708.9, 709.5, 710.0, -708.0, -710.0, -745.0, -746.0, -800.0, 1e3, -1e3, 1e4, -1e4]),
                1 => (r.f64() - 0.5) * 2000.0,
                2 => 690.0 + r.f64() * 30.0,
                _ => -(690.0 + r.f64() * 70.0),
            };
            let base = if n > 12_000 && r.chance(0.3) { *r.pick(&[699.5, 699.99, 700.5, 705.0, -699.9]) } else { base };
            let spread = if n > 12_000 && r.chance(0.5) { 0.49 } else { *r.pick(&[0.0, 1e-3, 1.0, 5.0, 40.0]) };
            let mut v: Vec<f64> = (0..n).map(|_| base - r.f64() * spread).collect();
            // one dominant entry, all the others in a tight cluster c below it: whether the cluster
            // matters is decided by n * exp(-c) against the rounding bound, not by exp(-c) alone
            if n >= 2 && r.chance(if n > 2000 { 0.5 } else { 0.15 }) {
                let c = *r.pick(&[3.0, 20.0, 25.0, 28.0, 30.5, 31.5, 32.001, 32.5, 33.0, 34.0, 35.0, 36.5, 38.0, 45.0, 700.0, 745.2]);
                // (the dominant entry sits at the very end or the very start in half of the cases)
                let top = match r.below(4) { 0 => n - 1, 1 => 0, _ => r.below(n as u64) as usize };
                for (i, x) in v.iter_mut().enumerate() {
                    *x = if i == top { base } else { base - c - r.f64() * 1e-3 };
                }
            }
            // log of probability zero: -inf entries contribute exactly 0 to the sum of exponentials
            // (at least one entry stays finite; with none the definition gives log 0, not generated)
            if n >= 2 && r.chance(0.25) {
                let p = *r.pick(&[0.1, 0.5, 0.9]);
                let keep = r.below(n as u64) as usize;
                for (i, x) in v.iter_mut().enumerate() {
                    if i != keep && r.chance(p) {
                        *x = f64::NEG_INFINITY;
                    }
                }
            }
            v
        }
        // uniformly tiny or huge magnitudes (every entry far below any absolute tolerance / far above 1)
        4 => {
            let sc = *r.pick(&[1e-17, 3e-16, 1e-30, 1e-150, 1e20, 1e150]);
            (0..n).map(|_| gen_val(r, false) * sc).collect()
        }
        // product-friendly
        3 => (0..n).map(|_| (0.25 + r.f64() * 3.75) * if r.chance(0.3) { -1.0 } else { 1.0 }).collect(),
        1 => (0..n).map(|_| gen_val(r, true)).collect(),
        _ => (0..n).map(|_| gen_val(r, false)).collect(),
    }
}

fn pick_rows(r: &mut Sm, n: usize) -> usize {
    if n == 0 {
        return 0;
    }
    let divs: Vec<usize> = (1..=n).filter(|d| n % d == 0).collect();
    *r.pick(&divs)
}

impl Prop for C04 {
    const ID: &'static str = "C04";
    type Case = Case;

    fn runs(tier: Tier) -> u64 {
        let grid = (all_forms().len() * 41) as u64;
        match tier {
            Tier::Quick => grid + 150_000,
            Tier::Thorough => grid + 4_000_000,
        }
    }
    fn chunk(tier: Tier) -> u64 {
        match tier {
            Tier::Quick => 2_500,
            Tier::Thorough => 25_000,
        }
    }

    fn gen(seed: u64, run: u64, _tier: Tier) -> Case {
        let mut r = Sm::new(mix3(seed, str_id("C04"), run));
        let forms = all_forms();
        let grid = (forms.len() * 41) as u64;
        if run < grid {
            // exhaustive cell: (form, length) under all five fill policies
            let form = forms[(run / 41) as usize];
            let n = (run % 41) as usize;
            let kind = match form {
                Form::Reduce(Red::LogSumExp | Red::LogSumExpM | Red::LogMeanExp | Red::LogMeanExpM) => 2,
                Form::Reduce(Red::Prod | Red::ProdM | Red::MatProd) => 3,
                Form::Reduce(_) => 0,
                _ => (run % 2) as u8,
            };
            let init = vec![fbs(&gen_vec(&mut r, n, kind)), fbs(&gen_vec(&mut r, n, kind))];
            let rows = pick_rows(&mut r, n);
            return Case {
                n,
                rows,
                init,
                steps: vec![StepE { form, a: 0, b: if matches!(form, Form::VV(_, Own::RR) | Form::MM(_, Own::RR)) && n % 2 == 1 { 0 } else { 1 }, s: Fb(gen_val(&mut r, kind == 1)), alt: r.below(64) as usize, sub: 0 }],
                fills: Fill::ALL.to_vec(),
                scribble: false,
                junk: Hx(r.next()),
                grid: true,
            };
        }
        // random program: results fed back into the pool so that buffers are recycled
        let n = match r.below(100) {
            0..=49 => r.usize(0, 40),
            50..=79 => r.usize(41, 300),
            80..=89 => r.usize(301, 2000),
            90..=97 => r.usize(2001, 10_000),
            // beyond the stated 1e4: size thresholds of bulk / parallel code paths
            _ => r.usize(10_001, 140_000),
        };
        let special = r.chance(0.4);
        let nsteps = if n > 10_000 { 1 + r.below(2) as usize } else if n > 2000 { 1 + r.below(3) as usize } else { 1 + r.below(12) as usize };
        let focus = r.below(4); // 0: anything, 1: arithmetic, 2: maps, 3: reductions
        let kind = if focus == 3 { *r.pick(&[0u8, 2, 2, 3, 4]) } else if special { 1 } else if r.chance(0.05) { 4 } else { 0 };
        let init: Vec<Vec<Fb>> = (0..3).map(|_| fbs(&gen_vec(&mut r, n, kind))).collect();
        let rows = pick_rows(&mut r, n);
        let mut steps = vec![];
        for _ in 0..nsteps {
            let form = loop {
                let f = *r.pick(&forms);
                let ok = match focus {
                    1 => !matches!(f, Form::VMap(..) | Form::MMap(..) | Form::Reduce(..)),
                    2 => matches!(f, Form::VMap(..) | Form::MMap(..) | Form::VPowi(..) | Form::MPowi(..) | Form::VPowf(..) | Form::MPowf(..)),
                    3 => matches!(f, Form::Reduce(..)),
                    _ => true,
                };
                if ok {
                    break f;
                }
            };
            let sub = if n >= 2 && r.chance(0.3) { 1 + r.below(n as u64 - 1) as usize } else { 0 };
            let step = StepE { form, a: r.below(3) as usize, b: r.below(3) as usize, s: Fb(gen_scalar(&mut r, special)), alt: r.below(64) as usize, sub };
            let again = matches!(form, Form::VMap(..) | Form::MMap(..) | Form::VPowi(..) | Form::MPowi(..) | Form::VPowf(..) | Form::MPowf(..) | Form::Reduce(..)) && r.chance(0.2);
            steps.push(step.clone());
            if again {
                // the same call once more, on the same values in reversed order
                let mut t = step;
                t.alt ^= 32;
                steps.push(t);
            }
        }
        let mut fills: Vec<Fill> = vec![*r.pick(&Fill::ALL)];
        loop {
            let f = *r.pick(&Fill::ALL);
            if f != fills[0] {
                fills.push(f);
                break;
            }
        }
        Case { n, rows, init, steps, fills, scribble: r.chance(0.4), junk: Hx(r.next()), grid: false }
    }

    fn exec(case: &Case, st: &mut Stats) -> Option<Viol> {
        alea::sim::reset(alea::sim::DEFAULT_THREAD_INIT);
        let n = case.n;
        let mut pool: Vec<Vec<f64>> = case.init.iter().map(|v| unfb(v)).collect();
        while pool.len() < 3 {
            pool.push(pool.last().cloned().unwrap_or_default());
        }
        if pool.iter().any(|v| v.len() != n) || (n > 0 && (case.rows == 0 || n % case.rows != 0)) || case.fills.is_empty() {
            st.log = 1;
            return None; // malformed (hand-edited) case
        }
        let mut h = H64::new();
        let mut dh = H64::new();
        let mut verdict: Option<Viol> = None;
        let mut slot = 0usize;
        let res8 = n % 8;
        st.inc(if case.grid { "runs.grid" } else { "runs.program" });
        'steps: for (si, stp) in case.steps.iter().enumerate() {
            let f = &stp.form;
            let cls = form_class(f);
            st.inc("ops");
            st.inc(&format!("form.{}", cls));
            st.inc(&format!("len_mod8.{}", res8));
            st.inc(if n >= 8 { "len.ge8" } else { "len.lt8" });
            dh.s(&form_name(f));
            dh.u(res8 as u64);
            dh.u((n >= 8) as u64 + (n > 40) as u64);
            let mut a = pool[stp.a % 3].clone();
            let mut b = pool[stp.b % 3].clone();
            let full_n = n;
            let sub_active = stp.sub > 0 && stp.sub < full_n;
            if sub_active {
                a.truncate(stp.sub);
                b.truncate(stp.sub);
                st.inc("sub_length_ops");
            }
            // unary forms may read their operand in reversed order (bit 5 of alt): the same values in another
            // arrangement, right after the same call on the original arrangement
            let unary = matches!(f, Form::VMap(..) | Form::MMap(..) | Form::VPowi(..) | Form::MPowi(..) | Form::VPowf(..) | Form::MPowf(..) | Form::Reduce(..));
            if unary && (stp.alt / 32) % 2 == 1 && !case.grid {
                a.reverse();
                st.inc("reversed_operand");
            }
            let alias = stp.a % 3 == stp.b % 3 && stp.alt % 2 == 0 && matches!(f, Form::VV(_, Own::RR) | Form::MM(_, Own::RR));
            if alias {
                st.inc("aliased_operands");
            }
            let n = a.len();
            let rows_here = if sub_active { 1 } else { case.rows };
            let res8 = n % 8;
            let s = stp.s.0;
            let mk = |class: &str, detail: String| Viol::new("elementwise_exact", class, format!("step {} {} (n = {}, n mod 8 = {}): {}", si, form_name(f), n, res8, detail)).k("form", cls);
            let mut outs: Vec<(Fill, Result<Outc, String>)> = vec![];
            for (pi, fill) in case.fills.iter().enumerate() {
                alloc_seam::set_policy(*fill, case.scribble, case.junk.0 ^ ((si as u64) << 8) ^ pi as u64);
                let o = run_form(f, &a, &b, s, rows_here, stp.alt, alias);
                alloc_seam::reset_policy();
                st.inc(&format!("fill.{}", fill.name()));
                outs.push((*fill, o));
            }
            let (filled, scrib) = alloc_seam::take_counts();
            st.add("fault.fill_alloc", filled);
            st.add("fault.scribble_free", scrib);
            // results must not depend on the fill policy
            for k in 1..outs.len() {
                if outs[k].1 != outs[0].1 {
                    let d = match (&outs[0].1, &outs[k].1) {
                        (Ok(x), Ok(y)) => {
                            let pos = x.res.iter().zip(&y.res).position(|(p, q)| p != q);
                            format!("result differs between fill policies {} and {} (first at position {:?}: {:?} vs {:?})", outs[0].0.name(), outs[k].0.name(), pos,
                                pos.map(|p| f64::from_bits(x.res[p])), pos.map(|p| f64::from_bits(y.res[p])))
                        }
                        (x, y) => format!("outcome differs between fill policies {} and {}: {} vs {}", outs[0].0.name(), outs[k].0.name(), x.is_ok(), y.is_ok()),
                    };
                    verdict = Some(mk("depends_on_uninitialised_memory", d));
                    break 'steps;
                }
            }
            let first = outs.remove(0).1;
            match f {
                Form::MisVV(..) | Form::MisVAssign(..) | Form::MisMM(..) | Form::MisMAssign(..) => {
                    st.inc("fault.reject");
                    match first {
                        // an owned-operand mismatch unwinds out of the outer catch: the expected rejection
                        Err(m) if m.contains("csim:") => {
                            verdict = Some(mk("operand_changed", m));
                            break 'steps;
                        }
                        Err(_) => st.inc("outcome.rejected"),
                        Ok(o) if o.shape == (9, 9) => st.inc("skipped"),
                        Ok(o) if o.shape == (0, 0) => {
                            st.inc("outcome.rejected");
                            // operands untouched
                            let exp_a: Option<Vec<u64>> = o.a_after.clone();
                            let _ = exp_a;
                            let ok = match f {
                                Form::MisVV(..) | Form::MisVAssign(..) => {
                                    // one of the two operands is `a` itself (the other is synthetic)
                                    let ab = bits(&a);
                                    o.a_after.as_ref().map_or(true, |x| *x == ab || x.len() != n) && o.b_after.as_ref().map_or(true, |y| *y == ab || y.len() != n)
                                }
                                _ => true,
                            };
                            let synth_ok = match f {
                                Form::MisMM(..) => {
                                    let ((r1, c1), (r2, c2)) = MIS_SHAPES[stp.alt % MIS_SHAPES.len()];
                                    let d1: Vec<u64> = (0..r1 * c1).map(|i| (i as f64 + 1.0).to_bits()).collect();
                                    let d2: Vec<u64> = (0..r2 * c2).map(|i| (10.0 - i as f64).to_bits()).collect();
                                    o.a_after.as_ref().map_or(true, |x| *x == d1) && o.b_after.as_ref().map_or(true, |y| *y == d2)
                                }
                                Form::MisMAssign(..) => {
                                    let ((r1, c1), (r2, c2)) = MIS_ASSIGN_SHAPES[stp.alt % MIS_ASSIGN_SHAPES.len()];
                                    let d1: Vec<u64> = (0..r1 * c1).map(|i| (i as f64 + 1.0).to_bits()).collect();
                                    let d2: Vec<u64> = (0..r2 * c2).map(|i| (10.0 - i as f64).to_bits()).collect();
                                    o.a_after.as_ref().map_or(true, |x| *x == d1) && o.b_after.as_ref().map_or(true, |y| *y == d2)
                                }
                                _ => true,
                            };
                            if !ok || !synth_ok {
                                verdict = Some(mk("operand_changed", "an operand of a rejected (mismatched) operation was modified".into()));
                                break 'steps;
                            }
                        }
                        Ok(o) => {
                            verdict = Some(mk("mismatch_produced_value", format!("mismatched lengths/shapes were not rejected: produced {} element(s)", o.res.len())));
                            break 'steps;
                        }
                    }
                }
                Form::Reduce(red) => match first {
                    Err(m) => {
                        // documented domain: non-empty input for the log-domain / inf-norm reductions
                        if n == 0 && matches!(red, Red::InfNorm | Red::InfNormM | Red::LogSumExp | Red::LogSumExpM | Red::LogMeanExp | Red::LogMeanExpM) {
                            st.inc("skipped");
                        } else {
                            verdict = Some(mk("panic", format!("reduction panicked: {}", m)));
                            break 'steps;
                        }
                    }
                    Ok(o) => {
                        st.inc("outcome.ok");
                        let got = f64::from_bits(o.res[0]);
                        h.f(got);
                        if o.a_after.as_ref().map_or(false, |x| *x != bits(&a)) {
                            verdict = Some(mk("operand_changed", "reduction modified its input".into()));
                            break 'steps;
                        }
                        if let Err(d) = check_reduction(*red, &a, &b, rows_here.max(1), got) {
                            verdict = Some(mk("reduction_off_definition", d));
                            break 'steps;
                        }
                        if matches!(red, Red::InfNorm) && rows_here.max(1) >= 2 && stp.alt % 3 == 0 {
                            st.inc("reduce.inf_norm_after_rejected_request");
                        }
                        if let (Some((k, nv)), Some(g2)) = (poke_of(&a), o.res.get(1)) {
                            st.inc("reduce.again_after_in_place_change");
                            let mut a2 = a.clone();
                            a2[k] = nv;
                            if let Err(d) = check_reduction(*red, &a2, &b, rows_here.max(1), f64::from_bits(*g2)) {
                                verdict = Some(mk("reduction_off_definition", format!("second evaluation on the same object after element {} was changed in place to {:e}: {}", k, nv, d)));
                                break 'steps;
                            }
                            if let (Some((k2, nv2)), Some(g3)) = (poke2_of(&a, stp.alt), o.res.get(2)) {
                                st.inc("reduce.third_time_after_another_in_place_change");
                                a2[k2] = nv2;
                                if let Err(d) = check_reduction(*red, &a2, &b, rows_here.max(1), f64::from_bits(*g3)) {
                                    verdict = Some(mk("reduction_off_definition", format!("third evaluation on the same object after elements {} and {} were changed in place: {}", k, k2, d)));
                                    break 'steps;
                                }
                            }
                        }
                    }
                },
                _ => {
                    let reference = reference(f, &a, &b, s).unwrap();
                    match first {
                        Err(m) => {
                            verdict = Some(mk("panic", format!("a well-formed element-wise operation panicked: {}", m)));
                            break 'steps;
                        }
                        Ok(o) => {
                            st.inc("outcome.ok");
                            let exp_shape = if is_matrix_form(f) { if n == 0 { (0, 0) } else { (rows_here, n / rows_here) } } else { (1, n) };
                            if o.res.len() != n || o.shape != exp_shape {
                                verdict = Some(mk("wrong_shape", format!("result has {} elements, shape {:?}; expected {} elements, shape {:?}", o.res.len(), o.shape, n, exp_shape)));
                                break 'steps;
                            }
                            let rb = bits(&reference);
                            if let Some(p) = (0..n).find(|i| o.res[*i] != rb[*i]) {
                                verdict = Some(mk("wrong_element", format!(
                                    "position {} (a = {:e}, b = {:e}, scalar = {:e}): got {:e} (0x{:016x}), the scalar operation gives {:e} (0x{:016x})",
                                    p, a[p], b[p], s, f64::from_bits(o.res[p]), o.res[p], reference[p], rb[p])).k("pos_class", if p >= n - n % 8 { "remainder" } else { "unrolled" }));
                                break 'steps;
                            }
                            let ab = bits(&a);
                            let bb = bits(&b);
                            if o.a_after.as_ref().map_or(false, |x| *x != ab) || o.b_after.as_ref().map_or(false, |y| *y != bb) {
                                verdict = Some(mk("operand_changed", "a borrowed operand was modified by the operation".into()));
                                break 'steps;
                            }
                            for x in &o.res {
                                h.u(*x);
                            }
                            // feed the result back (recycles buffers, evolves values)
                            if !case.grid && !sub_active {
                                pool[slot % 3] = reference;
                                slot += 1;
                            }
                        }
                    }
                }
            }
        }
        h.u(verdict.is_some() as u64);
        st.log = h.0;
        st.distinct.push(dh.0);
        st.nontrivial = n >= 1;
        verdict
    }

    fn shrink(case: &Case) -> Vec<Case> {
        let mut out = vec![];
        // fewer steps
        let ns = case.steps.len();
        if ns > 1 {
            for i in 0..ns {
                let mut c = case.clone();
                c.steps.remove(i);
                out.push(c);
            }
            let mut c = case.clone();
            c.steps.truncate(ns / 2);
            out.push(c);
        }
        // shorter, same residue mod 8 first
        let n = case.n;
        let mut cands: Vec<usize> = vec![];
        if n >= 16 {
            cands.push(8 + n % 8);
        }
        if n >= 8 {
            cands.push(n % 8);
            cands.push(n - 8);
        }
        if n > 0 {
            cands.push(n / 2);
            cands.push(n - 1);
        }
        for m in cands {
            if m < n {
                let mut c = case.clone();
                c.n = m;
                for v in c.init.iter_mut() {
                    // keep the tail (remainder positions) rather than the head
                    let cut = v.len() - m;
                    v.drain(0..cut);
                }
                c.rows = if m == 0 { 0 } else { 1 };
                out.push(c);
            }
        }
        // simpler values
        let simple: Vec<Vec<Fb>> = (0..case.init.len()).map(|k| (0..n).map(|i| Fb((i + 1 + k) as f64)).collect()).collect();
        if simple != case.init {
            let mut c = case.clone();
            c.init = simple;
            out.push(c);
        }
        for i in 0..case.init.len() {
            for j in 0..n.min(64) {
                let v = case.init[i][j].0;
                if v != 1.0 && v != (j + 1 + i) as f64 {
                    let mut c = case.clone();
                    c.init[i][j] = Fb(1.0);
                    out.push(c);
                }
            }
        }
        if case.fills != vec![Fill::Canary, Fill::Zero] {
            let mut c = case.clone();
            c.fills = vec![Fill::Canary, Fill::Zero];
            c.scribble = false;
            out.push(c);
        }
        if case.rows > 1 {
            let mut c = case.clone();
            c.rows = 1;
            out.push(c);
        }
        out
    }

    fn rule() -> &'static str {
        "runs 0..GRID-1 enumerate every (operation form, length 0..=40) cell exhaustively, each executed under all five allocator fill policies (pass, zero, ones, canary, junk); the remaining runs are random programs of 1..12 element-wise operations / reductions over a pool of three equal-length vectors (lengths 0..10^4, matrix shape a random divisor), each step executed under two different fill policies with optional scribble-on-free, results fed back into the pool. distinct = distinct sequences of (operation form, length mod 8, length class <8 / 8..40 / >40); non-trivial = length >= 1"
    }
    fn assumptions() -> Vec<String> {
        vec![
            "element-wise reference = the same f64 operation applied per element on a black_box'ed argument in the same binary; compared bit for bit (NaN by position)".into(),
            "reductions: reference in double-double arithmetic, tolerance = a-priori bound valid for any summation order; checked for finite inputs (and for prod only for |x| in [0.25,4], n <= 400, where no over/underflow occurs)".into(),
            "matrix-matrix mismatches use pairs that are not broadcast-compatible (broadcasting belongs to C12); compound assignment rejects any unequal shape".into(),
            "a result that differs between two fill policies is a violation regardless of the reference".into(),
        ]
    }
    fn reach(c: &BTreeMap<String, u64>) -> Value {
        let pick = |p: &str| -> BTreeMap<String, u64> {
            c.iter().filter(|(k, _)| k.starts_with(p)).map(|(k, v)| (k.clone(), *v)).collect()
        };
        let nforms = all_forms().len();
        json!({
            "forms": pick("form."), "length_residues": pick("len_mod8."), "length_classes": pick("len."),
            "fill_policies": pick("fill."), "outcomes": pick("outcome."), "runs": pick("runs."),
            "exhaustive_grid": { "forms": nforms, "lengths": "0..=40", "policies": 5, "cells": nforms * 41, "cells_executed": c.get("runs.grid").copied().unwrap_or(0), "exhaustive": c.get("runs.grid").copied().unwrap_or(0) as usize == nforms * 41 },
        })
    }
    fn expected_counters(_tier: Tier) -> Vec<String> {
        let mut v: Vec<String> = vec![];
        for cls in ["vec_vec", "vec_scalar", "scalar_vec", "vec_assign_vec", "vec_assign_scalar", "vec_neg", "vec_map", "vec_powi", "vec_powf", "mat_mat", "mat_scalar", "scalar_mat", "mat_assign_mat", "mat_assign_scalar", "mat_neg", "mat_map", "mat_powi", "mat_powf", "reduction", "mismatch_vec_vec", "mismatch_vec_assign", "mismatch_mat_mat", "mismatch_mat_assign"] {
            v.push(format!("form.{}", cls));
        }
        for k in 0..8 {
            v.push(format!("len_mod8.{}", k));
        }
        for f in Fill::ALL {
            v.push(format!("fill.{}", f.name()));
        }
        for k in ["len.ge8", "len.lt8", "fault.fill_alloc", "fault.scribble_free", "fault.reject", "outcome.ok", "outcome.rejected", "runs.grid", "runs.program", "sub_length_ops", "aliased_operands"] {
            v.push(k.to_string());
        }
        v
    }
    fn components() -> Value {
        json!({
            "real": ["compute::linalg::{Vector, Matrix} std::ops operator impls, unary maps, powi/powf", "compute::linalg::{sum, prod, dot, norm, inf_norm, logsumexp, logmeanexp} and the corresponding methods", "the vops kernels underneath (pub(crate), reached through the public API)"],
            "stub": ["global allocator -> sim-alloc (System + fill policy for fresh bytes: pass/zero/ones/canary/junk, optional scribble on free)"]
        })
    }
}
