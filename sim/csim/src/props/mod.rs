//! One module per claimed property. Each implements `Prop`: a deterministic case generator,
//! an executor that runs the real library against its oracle, and a shrinker.

use crate::harness::{Stats, Viol};
use serde::{de::DeserializeOwned, Serialize};
use serde_json::Value;
use std::collections::BTreeMap;

pub mod c03;
pub mod c04;
pub mod c15;
pub mod c18;
pub mod c19;

#[derive(Clone, Copy, Debug, PartialEq, Eq)]
pub enum Tier {
    Quick,
    Thorough,
}
impl Tier {
    pub fn name(self) -> &'static str {
        match self {
            Tier::Quick => "quick",
            Tier::Thorough => "thorough",
        }
    }
    pub fn parse(s: &str) -> Option<Tier> {
        match s {
            "quick" => Some(Tier::Quick),
            "thorough" => Some(Tier::Thorough),
            _ => None,
        }
    }
}

pub trait Prop {
    const ID: &'static str;
    type Case: Serialize + DeserializeOwned + Clone + Sync + Send;
    /// number of runs in a batch of this tier
    fn runs(tier: Tier) -> u64;
    /// runs per chunk (a chunk is one worker process invocation)
    fn chunk(tier: Tier) -> u64;
    /// CPU-seconds a single run may consume before the watchdog kills the worker
    fn cpu_limit_s() -> u32 {
        20
    }
    /// pure function of (root seed, run index, tier)
    fn gen(seed: u64, run: u64, tier: Tier) -> Self::Case;
    /// execute against the real library; must catch every unwind of library code itself
    fn exec(case: &Self::Case, st: &mut Stats) -> Option<Viol>;
    /// simpler candidates, most aggressive first
    fn shrink(case: &Self::Case) -> Vec<Self::Case>;
    fn rule() -> &'static str;
    fn assumptions() -> Vec<String>;
    /// property-specific evidence derived from the merged counters
    fn reach(counters: &BTreeMap<String, u64>) -> Value;
    /// counters that must be non-zero after a batch; listed under `unreached` otherwise
    fn expected_counters(tier: Tier) -> Vec<String>;
    fn components() -> Value;
}

#[macro_export]
macro_rules! with_prop {
    ($id:expr, $P:ident => $body:expr) => {
        match $id {
            "C03" => {
                type $P = $crate::props::c03::C03;
                Some($body)
            }
            "C04" => {
                type $P = $crate::props::c04::C04;
                Some($body)
            }
            "C15" => {
                type $P = $crate::props::c15::C15;
                Some($body)
            }
            "C18" => {
                type $P = $crate::props::c18::C18;
                Some($body)
            }
            "C19" => {
                type $P = $crate::props::c19::C19;
                Some($body)
            }
            _ => None,
        }
    };
}

