//! C15 — shape operations and constructors preserve data and the matrix invariant.
//! Programs of structural operations over a small pool of matrices and vectors, run in
//! lock-step with a plain row-major reference model; rejected operations (unwinds caught,
//! object used afterwards) and panicking callbacks are the injected faults; fresh memory is
//! filled by the allocator seam.

use super::{Prop, Tier};
use crate::alloc_seam::{self, Fill};
use crate::harness::*;
use crate::prng::{mix3, str_id, Sm};
use compute::linalg::*;
use serde::{Deserialize, Serialize};
use serde_json::{json, Value};
use std::collections::BTreeMap;

pub struct C15;

/// reference model of a matrix: plain row-major
#[derive(Clone, Debug)]
struct MM {
    r: usize,
    c: usize,
    d: Vec<f64>,
}
impl MM {
    fn at(&self, i: usize, j: usize) -> f64 {
        self.d[i * self.c + j]
    }
    fn t(&self) -> MM {
        let mut d = Vec::with_capacity(self.d.len());
        for j in 0..self.c {
            for i in 0..self.r {
                d.push(self.at(i, j));
            }
        }
        MM { r: self.c, c: self.r, d }
    }
}

#[derive(Clone, Debug, Serialize, Deserialize, PartialEq)]
pub enum Op {
    // ---- pool-creating
    New { data: Vec<Fb>, r: i32, c: i32 },
    Zeros { r: usize, c: usize },
    Ones { r: usize, c: usize },
    Eye { n: usize },
    WithShape { r: usize, c: usize },
    CloneM { m: usize },
    DropM { m: usize },
    DropV { v: usize },
    NewVec { data: Vec<Fb> },
    // ---- shape
    Reshape { m: usize, r: i32, c: i32 },
    ReshapeMut { m: usize, r: i32, c: i32 },
    T { m: usize },
    TMut { m: usize },
    Hcat { a: usize, b: usize },
    Vcat { a: usize, b: usize },
    Hrepeat { m: usize, n: usize },
    Vrepeat { m: usize, n: usize },
    GetRow { m: usize, i: usize },
    GetCol { m: usize, j: usize },
    /// f: 0 => 2x+1, 1 => -x, 2 => x*x-3, 3 => x/4 ; panic_at: closure panics on its k-th call
    ApplyRow { m: usize, i: usize, f: u8, panic_at: Option<usize> },
    ApplyCol { m: usize, j: usize, f: u8, panic_at: Option<usize> },
    FlatIdx { m: usize, k: usize },
    FlatReplace { m: usize, k: usize, v: Fb },
    IndexRow { m: usize, i: usize },
    Index2 { m: usize, i: usize, j: usize },
    IndexMut2 { m: usize, i: usize, j: usize, v: Fb },
    IndexMutRow { m: usize, i: usize, j: usize, v: Fb },
    DataMut { m: usize, k: usize, v: Fb },
    Diag { m: usize },
    IterRows { m: usize },
    ToVec { m: usize },
    VecToMatrix { v: usize },
    VecReshape { v: usize, r: i32, c: i32 },
    RowToColMajor { m: usize },
    ColToRowMajor { m: usize },
    TransposeFn { m: usize },
    // ---- constructors
    DiagMatrix { v: usize },
    Toeplitz { v: usize },
    Vandermonde { v: usize, n: usize },
    Design { m: usize },
    Linspace { a: Fb, b: Fb, n: usize },
    Arange { a: Fb, b: Fb, step: Fb },
    Rotation { angle: Fb, axis: u8 },
    // ---- predicates / comparisons
    Predicates { m: usize },
    EqClose { a: usize, b: usize, tol: Fb },
    /// compare m with a perturbed copy: kind 0 identical, 1 one element negated, 2 one element
    /// scaled by (1+delta), 3 reshaped/transposed shape with the same buffer
    CmpPerturbed { m: usize, kind: u8, k: usize, delta: Fb, tol: Fb },
}

#[derive(Clone, Debug, Serialize, Deserialize)]
pub struct Case {
    pub ops: Vec<Op>,
    pub fill: Fill,
    pub scribble: bool,
    pub junk: Hx,
}

fn apply_f(f: u8, x: f64) -> f64 {
    match f {
        0 => 2.0 * x + 1.0,
        1 => -x,
        2 => x * x - 3.0,
        _ => x / 4.0,
    }
}

fn op_name(op: &Op) -> &'static str {
    match op {
        Op::New { .. } => "new",
        Op::Zeros { .. } => "zeros",
        Op::Ones { .. } => "ones",
        Op::Eye { .. } => "eye",
        Op::WithShape { .. } => "with_shape",
        Op::CloneM { .. } => "clone",
        Op::DropM { .. } => "drop_m",
        Op::DropV { .. } => "drop_v",
        Op::NewVec { .. } => "new_vec",
        Op::Reshape { .. } => "reshape",
        Op::ReshapeMut { .. } => "reshape_mut",
        Op::T { .. } => "t",
        Op::TMut { .. } => "t_mut",
        Op::Hcat { .. } => "hcat",
        Op::Vcat { .. } => "vcat",
        Op::Hrepeat { .. } => "hrepeat",
        Op::Vrepeat { .. } => "vrepeat",
        Op::GetRow { .. } => "get_row",
        Op::GetCol { .. } => "get_col",
        Op::ApplyRow { .. } => "apply_along_row",
        Op::ApplyCol { .. } => "apply_along_col",
        Op::FlatIdx { .. } => "flat_idx",
        Op::FlatReplace { .. } => "flat_idx_replace",
        Op::IndexRow { .. } => "index_row",
        Op::Index2 { .. } => "index2",
        Op::IndexMut2 { .. } => "index_mut2",
        Op::IndexMutRow { .. } => "index_mut_row",
        Op::DataMut { .. } => "data_mut",
        Op::Diag { .. } => "diag",
        Op::IterRows { .. } => "iter_rows",
        Op::ToVec { .. } => "to_vec",
        Op::VecToMatrix { .. } => "to_matrix",
        Op::VecReshape { .. } => "vec_reshape",
        Op::RowToColMajor { .. } => "row_to_col_major",
        Op::ColToRowMajor { .. } => "col_to_row_major",
        Op::TransposeFn { .. } => "transpose_fn",
        Op::DiagMatrix { .. } => "diag_matrix",
        Op::Toeplitz { .. } => "toeplitz",
        Op::Vandermonde { .. } => "vandermonde",
        Op::Design { .. } => "design",
        Op::Linspace { .. } => "linspace",
        Op::Arange { .. } => "arange",
        Op::Rotation { .. } => "rotation",
        Op::Predicates { .. } => "predicates",
        Op::EqClose { .. } => "eq_close",
        Op::CmpPerturbed { .. } => "cmp_perturbed",
    }
}

pub const ALL_OPS: [&str; 46] = [
    "new", "zeros", "ones", "eye", "with_shape", "clone", "drop_m", "drop_v", "new_vec", "reshape",
    "reshape_mut", "t", "t_mut", "hcat", "vcat", "hrepeat", "vrepeat", "get_row", "get_col",
    "apply_along_row", "apply_along_col", "flat_idx", "flat_idx_replace", "index_row", "index2",
    "index_mut2", "index_mut_row", "data_mut", "diag", "iter_rows", "to_vec", "to_matrix",
    "vec_reshape", "row_to_col_major", "col_to_row_major", "transpose_fn", "diag_matrix",
    "toeplitz", "vandermonde", "design", "linspace", "arange", "rotation", "predicates",
    "eq_close", "cmp_perturbed",
];

/// what a (rows, cols) request resolves to for `len` elements, or None if impossible
fn resolve_shape(len: usize, r: i32, c: i32) -> Option<(usize, usize)> {
    if r > 0 && c > 0 {
        if (r as i64) * (c as i64) == len as i64 { Some((r as usize, c as usize)) } else { None }
    } else if r == -1 && c > 0 {
        if len % c as usize == 0 && len > 0 { Some((len / c as usize, c as usize)) } else { None }
    } else if c == -1 && r > 0 {
        if len % r as usize == 0 && len > 0 { Some((r as usize, len / r as usize)) } else { None }
    } else {
        None
    }
}

struct World {
    ms: Vec<Matrix>,
    mm: Vec<MM>,
    vs: Vec<Vector>,
    vm: Vec<Vec<f64>>,
}

const MAXP: usize = 4;

fn push_m(w: &mut World, m: Matrix, model: MM) {
    if w.ms.len() >= MAXP {
        w.ms.remove(0);
        w.mm.remove(0);
    }
    w.ms.push(m);
    w.mm.push(model);
}
fn push_v(w: &mut World, v: Vector, model: Vec<f64>) {
    if w.vs.len() >= MAXP {
        w.vs.remove(0);
        w.vm.remove(0);
    }
    w.vs.push(v);
    w.vm.push(model);
}

fn check_matrix(m: &Matrix, model: &MM) -> Result<(), (&'static str, String)> {
    if m.nrows * m.ncols != m.data.len() {
        return Err(("invariant_broken", format!("nrows*ncols = {}*{} != data.len() = {}", m.nrows, m.ncols, m.data.len())));
    }
    if m.nrows != model.r || m.ncols != model.c {
        return Err(("wrong_shape", format!("shape {}x{} but the model has {}x{}", m.nrows, m.ncols, model.r, model.c)));
    }
    if let Some(k) = slice_bits_eq(&m.data, &model.d) {
        return Err(("wrong_element", format!("flat element {} is {:?} but the model has {:?} (shape {}x{})", k, m.data.get(k), model.d.get(k), model.r, model.c)));
    }
    Ok(())
}

fn vec_check(v: &[f64], model: &[f64], what: &str) -> Result<(), (&'static str, String)> {
    match slice_bits_eq(v, model) {
        None => Ok(()),
        Some(k) => Err(("wrong_element", format!("{}: element {} is {:?}, expected {:?} (lengths {} / {})", what, k, v.get(k), model.get(k), v.len(), model.len()))),
    }
}

fn has_nan(d: &[f64]) -> bool {
    d.iter().any(|x| x.is_nan())
}

fn rel_close(a: f64, b: f64, tol: f64, scale: f64) -> bool {
    (a - b).abs() <= tol * scale.max(f64::MIN_POSITIVE)
}

/// Execute one op against the world. Err = violation (class, detail).
fn step(w: &mut World, op: &Op, st: &mut Stats) -> Result<(), (&'static str, String)> {
    macro_rules! need_m {
        ($i:expr) => {
            if *$i >= w.ms.len() {
                st.inc("skipped");
                return Ok(());
            }
        };
    }
    macro_rules! need_v {
        ($i:expr) => {
            if *$i >= w.vs.len() {
                st.inc("skipped");
                return Ok(());
            }
        };
    }
    /// run a possibly rejected operation: `$valid` is the model's verdict
    macro_rules! guarded {
        ($valid:expr, $call:expr, $what:expr) => {{
            let res = catch(|| $call);
            match (res, $valid) {
                (Ok(v), true) => {
                    st.inc("outcome.ok");
                    Some(v)
                }
                (Err(_), false) => {
                    st.inc("outcome.rejected");
                    st.inc("fault.reject");
                    None
                }
                (Ok(_), false) => return Err(("impossible_accepted", format!("{}: the request is impossible but no panic occurred", $what))),
                (Err(m), true) => return Err(("valid_rejected", format!("{}: a valid request panicked: {}", $what, m))),
            }
        }};
    }
    match op {
        Op::New { data, r, c } => {
            let d = unfb(data);
            let shape = resolve_shape(d.len(), *r, *c);
            if let Some(m) = guarded!(shape.is_some(), Matrix::new(d.clone(), *r, *c), format!("Matrix::new(len {}, {}, {})", d.len(), r, c)) {
                let (rr, cc) = shape.unwrap();
                push_m(w, m, MM { r: rr, c: cc, d });
            }
        }
        Op::Zeros { r, c } | Op::Ones { r, c } => {
            let one = matches!(op, Op::Ones { .. });
            let m = catch(|| if one { Matrix::ones(*r, *c) } else { Matrix::zeros(*r, *c) }).map_err(|m| ("valid_rejected", format!("zeros/ones({},{}) panicked: {}", r, c, m)))?;
            push_m(w, m, MM { r: *r, c: *c, d: vec![if one { 1.0 } else { 0.0 }; r * c] });
        }
        Op::Eye { n } => {
            let m = catch(|| Matrix::eye(*n)).map_err(|m| ("valid_rejected", format!("eye({}) panicked: {}", n, m)))?;
            let mut d = vec![0.0; n * n];
            for i in 0..*n {
                d[i * n + i] = 1.0;
            }
            check_matrix(&m, &MM { r: *n, c: *n, d: d.clone() })?;
            if *n <= 8 {
                push_m(w, m, MM { r: *n, c: *n, d });
            }
        }
        Op::WithShape { r, c } => {
            // elements are documented garbage: the model adopts them; shape and count are checked
            let m = catch(|| Matrix::with_shape(*r, *c)).map_err(|m| ("valid_rejected", format!("with_shape({},{}) panicked: {}", r, c, m)))?;
            if m.data.len() != r * c {
                return Err(("invariant_broken", format!("with_shape({},{}) holds {} elements", r, c, m.data.len())));
            }
            let mut m = m;
            if !alloc_seam::deterministic_fill() {
                // under the `pass` policy the garbage depends on malloc history: overwrite it (a
                // legal program step) so that the run stays a pure function of its seed
                for (k, x) in m.data_mut().iter_mut().enumerate() {
                    *x = k as f64;
                }
            }
            let d = m.data.v.clone();
            push_m(w, m, MM { r: *r, c: *c, d });
        }
        Op::CloneM { m } => {
            need_m!(m);
            let c = w.ms[*m].clone();
            let mc = w.mm[*m].clone();
            push_m(w, c, mc);
        }
        Op::DropM { m } => {
            need_m!(m);
            if w.ms.len() > 1 {
                w.ms.remove(*m);
                w.mm.remove(*m);
            }
        }
        Op::DropV { v } => {
            need_v!(v);
            w.vs.remove(*v);
            w.vm.remove(*v);
        }
        Op::NewVec { data } => {
            let d = unfb(data);
            push_v(w, Vector::new(d.clone()), d);
        }
        Op::Reshape { m, r, c } => {
            need_m!(m);
            let shape = resolve_shape(w.mm[*m].d.len(), *r, *c);
            let src = &w.ms[*m];
            if let Some(n) = guarded!(shape.is_some(), src.reshape(*r, *c), format!("reshape({},{}) of {}x{}", r, c, src.nrows, src.ncols)) {
                let (rr, cc) = shape.unwrap();
                let d = w.mm[*m].d.clone();
                push_m(w, n, MM { r: rr, c: cc, d });
            }
        }
        Op::ReshapeMut { m, r, c } => {
            need_m!(m);
            let shape = resolve_shape(w.mm[*m].d.len(), *r, *c);
            let what = format!("reshape_mut({},{}) of {}x{}", r, c, w.mm[*m].r, w.mm[*m].c);
            let tgt = &mut w.ms[*m];
            if guarded!(shape.is_some(), { tgt.reshape_mut(*r, *c); }, what).is_some() {
                let (rr, cc) = shape.unwrap();
                w.mm[*m].r = rr;
                w.mm[*m].c = cc;
            }
        }
        Op::T { m } => {
            need_m!(m);
            let src = &w.ms[*m];
            let t = catch(|| src.t()).map_err(|e| ("valid_rejected", format!("t() panicked: {}", e)))?;
            let mt = w.mm[*m].t();
            push_m(w, t, mt);
        }
        Op::TMut { m } => {
            need_m!(m);
            let tgt = &mut w.ms[*m];
            catch(|| { tgt.t_mut(); }).map_err(|e| ("valid_rejected", format!("t_mut() panicked: {}", e)))?;
            w.mm[*m] = w.mm[*m].t();
        }
        Op::Hcat { a, b } | Op::Vcat { a, b } => {
            need_m!(a);
            need_m!(b);
            let h = matches!(op, Op::Hcat { .. });
            let (ma, mb) = (w.mm[*a].clone(), w.mm[*b].clone());
            let ok = if h { ma.r == mb.r } else { ma.c == mb.c };
            // the consumed operand is a plain copy, or (every third time) a copy living in a buffer with spare
            // capacity, as the result of an earlier push / hcat / with_capacity + extend would
            let y = if (ma.d.len() * 7 + mb.d.len()) % 3 == 0 && !mb.d.is_empty() {
                st.inc("operand_with_spare_capacity");
                let mut v = Vec::with_capacity(mb.d.len() + ma.d.len() + 5);
                v.extend_from_slice(w.ms[*b].data().data());
                Matrix::new(v, mb.r as i32, mb.c as i32)
            } else {
                w.ms[*b].clone()
            };
            let x = &w.ms[*a];
            let what = format!("{}({}x{}, {}x{})", if h { "hcat" } else { "vcat" }, ma.r, ma.c, mb.r, mb.c);
            if let Some(n) = guarded!(ok, if h { x.hcat(y) } else { x.vcat(y) }, what) {
                let model = if h {
                    let mut d = vec![];
                    for i in 0..ma.r {
                        d.extend_from_slice(&ma.d[i * ma.c..(i + 1) * ma.c]);
                        d.extend_from_slice(&mb.d[i * mb.c..(i + 1) * mb.c]);
                    }
                    MM { r: ma.r, c: ma.c + mb.c, d }
                } else {
                    let mut d = ma.d.clone();
                    d.extend_from_slice(&mb.d);
                    MM { r: ma.r + mb.r, c: ma.c, d }
                };
                push_m(w, n, model);
            }
        }
        Op::Hrepeat { m, n } | Op::Vrepeat { m, n } => {
            need_m!(m);
            let h = matches!(op, Op::Hrepeat { .. });
            let mo = w.mm[*m].clone();
            let src = &w.ms[*m];
            let res = catch(|| if h { src.hrepeat(*n) } else { src.vrepeat(*n) }).map_err(|e| ("valid_rejected", format!("repeat({}) of {}x{} panicked: {}", n, mo.r, mo.c, e)))?;
            let model = if h {
                let mut d = vec![];
                for i in 0..mo.r {
                    for _ in 0..*n {
                        d.extend_from_slice(&mo.d[i * mo.c..(i + 1) * mo.c]);
                    }
                }
                MM { r: mo.r, c: mo.c * n, d }
            } else {
                let mut d = vec![];
                for _ in 0..*n {
                    d.extend_from_slice(&mo.d);
                }
                MM { r: mo.r * n, c: mo.c, d }
            };
            push_m(w, res, model);
        }
        Op::GetRow { m, i } => {
            need_m!(m);
            let mo = &w.mm[*m];
            let src = &w.ms[*m];
            if let Some(v) = guarded!(*i < mo.r, src.get_row_as_vector(*i), format!("get_row_as_vector({}) of {}x{}", i, mo.r, mo.c)) {
                let d = mo.d[i * mo.c..(i + 1) * mo.c].to_vec();
                vec_check(&v, &d, "get_row_as_vector")?;
                push_v(w, v, d);
            }
        }
        Op::GetCol { m, j } => {
            need_m!(m);
            let mo = &w.mm[*m];
            let src = &w.ms[*m];
            if let Some(v) = guarded!(*j < mo.c, src.get_col_as_vector(*j), format!("get_col_as_vector({}) of {}x{}", j, mo.r, mo.c)) {
                let d: Vec<f64> = (0..mo.r).map(|i| mo.at(i, *j)).collect();
                vec_check(&v, &d, "get_col_as_vector")?;
                push_v(w, v, d);
            }
        }
        Op::ApplyRow { m, i: idx, f, panic_at } | Op::ApplyCol { m, j: idx, f, panic_at } => {
            need_m!(m);
            let is_row = matches!(op, Op::ApplyRow { .. });
            let mo = w.mm[*m].clone();
            let in_range = if is_row { *idx < mo.r } else { *idx < mo.c };
            let calls = std::cell::Cell::new(0usize);
            let pa = *panic_at;
            let ff = *f;
            let clos = |x: f64| -> f64 {
                let k = calls.get();
                calls.set(k + 1);
                if Some(k) == pa {
                    panic!("csim: callback fault");
                }
                apply_f(ff, x)
            };
            let tgt = &mut w.ms[*m];
            let res = catch(|| if is_row { tgt.apply_along_row(*idx, clos) } else { tgt.apply_along_col(*idx, clos) });
            let positions: Vec<usize> = if !in_range {
                vec![]
            } else if is_row {
                (0..mo.c).map(|j| idx * mo.c + j).collect()
            } else {
                (0..mo.r).map(|i| i * mo.c + idx).collect()
            };
            match res {
                Ok(()) => {
                    if !in_range {
                        return Err(("impossible_accepted", format!("apply_along_{}({}) on {}x{} is out of range but did not panic", if is_row { "row" } else { "col" }, idx, mo.r, mo.c)));
                    }
                    if let Some(k) = pa {
                        if k < positions.len() {
                            return Err(("callback_panic_swallowed", "the callback panicked but the call returned normally".into()));
                        }
                    }
                    st.inc("outcome.ok");
                    for p in &positions {
                        w.mm[*m].d[*p] = apply_f(ff, mo.d[*p]);
                    }
                }
                Err(msg) => {
                    let cb = msg.contains("csim: callback fault");
                    if cb {
                        // relaxed: every element is its old value or f(old); nothing else moved
                        st.inc("fault.callback_panic");
                        let obj = &w.ms[*m];
                        if obj.nrows * obj.ncols != obj.data.len() || obj.nrows != mo.r || obj.ncols != mo.c {
                            return Err(("invariant_broken", "shape changed by a panicking callback".into()));
                        }
                        for k in 0..mo.d.len() {
                            let got = obj.data[k].to_bits();
                            let old = mo.d[k].to_bits();
                            let newv = apply_f(ff, mo.d[k]).to_bits();
                            let allowed = got == old || (positions.contains(&k) && got == newv);
                            if !allowed {
                                return Err(("wrong_element", format!("after a panicking callback flat element {} is {:e}: neither its old value {:e} nor f(old)", k, obj.data[k], mo.d[k])));
                            }
                        }
                        w.mm[*m].d = obj.data.v.clone();
                    } else if in_range {
                        return Err(("valid_rejected", format!("apply_along on {}x{} index {} panicked: {}", mo.r, mo.c, idx, msg)));
                    } else {
                        st.inc("outcome.rejected");
                        st.inc("fault.reject");
                    }
                }
            }
        }
        Op::FlatIdx { m, k } => {
            need_m!(m);
            let mo = &w.mm[*m];
            let src = &w.ms[*m];
            if let Some(x) = guarded!(*k < mo.d.len(), src.flat_idx(*k), format!("flat_idx({}) of {} elements", k, mo.d.len())) {
                if x.to_bits() != mo.d[*k].to_bits() {
                    return Err(("wrong_element", format!("flat_idx({}) = {:e}, model {:e}", k, x, mo.d[*k])));
                }
            }
        }
        Op::FlatReplace { m, k, v } => {
            need_m!(m);
            let n = w.mm[*m].d.len();
            let tgt = &mut w.ms[*m];
            if guarded!(*k < n, { tgt.flat_idx_replace(*k, v.0); }, format!("flat_idx_replace({}) of {} elements", k, n)).is_some() {
                w.mm[*m].d[*k] = v.0;
            }
        }
        Op::IndexRow { m, i } => {
            need_m!(m);
            let mo = &w.mm[*m];
            let src = &w.ms[*m];
            if let Some(row) = guarded!(*i < mo.r, src[*i].to_vec(), format!("m[{}] of {}x{}", i, mo.r, mo.c)) {
                vec_check(&row, &mo.d[i * mo.c..(i + 1) * mo.c], "row index")?;
            }
        }
        Op::Index2 { m, i, j } => {
            need_m!(m);
            let mo = &w.mm[*m];
            let src = &w.ms[*m];
            if let Some(x) = guarded!(*i < mo.r && *j < mo.c, src[[*i, *j]], format!("m[[{},{}]] of {}x{}", i, j, mo.r, mo.c)) {
                if x.to_bits() != mo.at(*i, *j).to_bits() {
                    return Err(("wrong_element", format!("m[[{},{}]] = {:e}, model {:e}", i, j, x, mo.at(*i, *j))));
                }
            }
        }
        Op::IndexMut2 { m, i, j, v } => {
            need_m!(m);
            let (r, c) = (w.mm[*m].r, w.mm[*m].c);
            let tgt = &mut w.ms[*m];
            if guarded!(*i < r && *j < c, { tgt[[*i, *j]] = v.0; }, format!("m[[{},{}]] = v on {}x{}", i, j, r, c)).is_some() {
                w.mm[*m].d[i * c + j] = v.0;
            }
        }
        Op::IndexMutRow { m, i, j, v } => {
            need_m!(m);
            let (r, c) = (w.mm[*m].r, w.mm[*m].c);
            let tgt = &mut w.ms[*m];
            if guarded!(*i < r && *j < c, { tgt[*i][*j] = v.0; }, format!("m[{}][{}] = v on {}x{}", i, j, r, c)).is_some() {
                w.mm[*m].d[i * c + j] = v.0;
            }
        }
        Op::DataMut { m, k, v } => {
            need_m!(m);
            let n = w.mm[*m].d.len();
            if *k < n {
                w.ms[*m].data_mut()[*k] = v.0;
                w.mm[*m].d[*k] = v.0;
            }
        }
        Op::Diag { m } => {
            need_m!(m);
            let mo = &w.mm[*m];
            let src = &w.ms[*m];
            let d = catch(|| src.diag()).map_err(|e| ("valid_rejected", format!("diag() of {}x{} panicked: {}", mo.r, mo.c, e)))?;
            let exp: Vec<f64> = (0..mo.r.min(mo.c)).map(|k| mo.at(k, k)).collect();
            vec_check(&d, &exp, &format!("diag of {}x{}", mo.r, mo.c))?;
            push_v(w, d, exp);
        }
        Op::IterRows { m } => {
            need_m!(m);
            let mo = &w.mm[*m];
            let src = &w.ms[*m];
            let rows: Vec<Vec<f64>> = catch(|| src.into_iter().map(|r| r.to_vec()).collect()).map_err(|e| ("valid_rejected", format!("row iteration panicked: {}", e)))?;
            if rows.len() != mo.r {
                return Err(("wrong_shape", format!("row iteration yields {} rows of a {}x{} matrix", rows.len(), mo.r, mo.c)));
            }
            for (i, r) in rows.iter().enumerate() {
                vec_check(r, &mo.d[i * mo.c..(i + 1) * mo.c], "row iteration")?;
            }
        }
        Op::ToVec { m } => {
            need_m!(m);
            let v = w.ms[*m].clone().to_vec();
            let d = w.mm[*m].d.clone();
            vec_check(&v, &d, "to_vec")?;
            push_v(w, v, d);
        }
        Op::VecToMatrix { v } => {
            need_v!(v);
            let d = w.vm[*v].clone();
            if d.is_empty() {
                return Ok(());
            }
            let src = w.vs[*v].clone();
            let m = catch(|| src.to_matrix()).map_err(|e| ("valid_rejected", format!("to_matrix of {} elements panicked: {}", d.len(), e)))?;
            push_m(w, m, MM { r: 1, c: d.len(), d });
        }
        Op::VecReshape { v, r, c } => {
            need_v!(v);
            let d = w.vm[*v].clone();
            let shape = resolve_shape(d.len(), *r, *c);
            let src = &w.vs[*v];
            if let Some(m) = guarded!(shape.is_some(), src.reshape(*r, *c), format!("Vector::reshape({},{}) of {} elements", r, c, d.len())) {
                let (rr, cc) = shape.unwrap();
                push_m(w, m, MM { r: rr, c: cc, d });
            }
        }
        Op::RowToColMajor { m } | Op::ColToRowMajor { m } | Op::TransposeFn { m } => {
            need_m!(m);
            let mo = &w.mm[*m];
            let data = w.ms[*m].data.v.clone();
            let (r, c) = (mo.r, mo.c);
            match op {
                Op::RowToColMajor { .. } => {
                    let out = catch(|| row_to_col_major(&data, r)).map_err(|e| ("valid_rejected", format!("row_to_col_major panicked: {}", e)))?;
                    let mut exp = vec![0.0; r * c];
                    for i in 0..r {
                        for j in 0..c {
                            exp[j * r + i] = mo.at(i, j);
                        }
                    }
                    vec_check(&out, &exp, "row_to_col_major")?;
                    // and back
                    let back = catch(|| col_to_row_major(&out, r)).map_err(|e| ("valid_rejected", format!("col_to_row_major panicked: {}", e)))?;
                    vec_check(&back, &mo.d, "col_to_row_major(row_to_col_major(x))")?;
                }
                Op::ColToRowMajor { .. } => {
                    // interpret the buffer as column-major r x c
                    let out = catch(|| col_to_row_major(&data, r)).map_err(|e| ("valid_rejected", format!("col_to_row_major panicked: {}", e)))?;
                    let mut exp = vec![0.0; r * c];
                    for i in 0..r {
                        for j in 0..c {
                            exp[i * c + j] = mo.d[j * r + i];
                        }
                    }
                    vec_check(&out, &exp, "col_to_row_major")?;
                }
                _ => {
                    // first an impossible request on the slice-level function (a length the row count does
                    // not divide): it must be rejected, and the well-formed request that follows must be
                    // unaffected by whatever the rejected one left behind
                    let mut bad = data.clone();
                    bad.push(0.5);
                    let nr = if bad.len() % 2 != 0 { 2 } else if bad.len() % 3 != 0 { 3 } else { 0 };
                    if nr > 0 && bad.len() > nr {
                        st.inc("transpose_fn.rejected_request_first");
                        if let Ok(v) = catch(|| transpose(&bad, nr)) {
                            return Err(("impossible_accepted", format!("transpose of {} values with {} rows returned {} values instead of panicking", bad.len(), nr, v.len())));
                        }
                    }
                    let out = catch(|| transpose(&data, r)).map_err(|e| ("valid_rejected", format!("transpose panicked: {}", e)))?;
                    vec_check(&out, &mo.t().d, "transpose(slice)")?;
                    // ... and the method forms on the live object as well
                    let live_t = catch(|| w.ms[*m].t()).map_err(|e| ("valid_rejected", format!("t() panicked: {}", e)))?;
                    vec_check(&live_t.data.v, &mo.t().d, "t() after a rejected slice transpose")?;
                }
            }
        }
        Op::DiagMatrix { v } => {
            need_v!(v);
            let x = w.vm[*v].clone();
            let n = x.len();
            if n == 0 || n > 64 {
                return Ok(());
            }
            let out = catch(|| diag_matrix(&x)).map_err(|e| ("valid_rejected", format!("diag_matrix panicked: {}", e)))?;
            let mut exp = vec![0.0; n * n];
            for i in 0..n {
                exp[i * n + i] = x[i];
            }
            vec_check(&out, &exp, "diag_matrix")?;
            let m = catch(|| Matrix::new(out.clone(), n as i32, n as i32)).map_err(|e| ("valid_rejected", format!("Matrix::new of diag_matrix output panicked: {}", e)))?;
            if n <= 8 {
                push_m(w, m, MM { r: n, c: n, d: exp });
            }
        }
        Op::Toeplitz { v } => {
            need_v!(v);
            let x = w.vm[*v].clone();
            let n = x.len();
            if n == 0 || n > 64 {
                return Ok(());
            }
            let out = catch(|| toeplitz(&x)).map_err(|e| ("valid_rejected", format!("toeplitz panicked: {}", e)))?;
            let mut exp = vec![0.0; n * n];
            for i in 0..n {
                for j in 0..n {
                    exp[i * n + j] = x[if i > j { i - j } else { j - i }];
                }
            }
            vec_check(&out, &exp, "toeplitz")?;
            let m = catch(|| Matrix::new(out.clone(), n as i32, n as i32)).map_err(|e| ("valid_rejected", format!("Matrix::new of toeplitz output panicked: {}", e)))?;
            if n <= 8 {
                push_m(w, m, MM { r: n, c: n, d: exp });
            }
        }
        Op::Vandermonde { v, n } => {
            need_v!(v);
            let x = w.vm[*v].clone();
            if x.is_empty() || *n == 0 || x.len() * n > 512 {
                return Ok(());
            }
            let out = catch(|| vandermonde(&x, *n)).map_err(|e| ("valid_rejected", format!("vandermonde panicked: {}", e)))?;
            if out.len() != x.len() * n {
                return Err(("wrong_shape", format!("vandermonde({} points, order {}) has {} elements", x.len(), n, out.len())));
            }
            for (i, xi) in x.iter().enumerate() {
                let mut p = 1.0f64;
                for j in 0..*n {
                    let got = out[i * n + j];
                    let okv = if p.is_nan() { got.is_nan() } else if p.is_infinite() || p == 0.0 { got == p || (got - p).abs() <= f64::MIN_POSITIVE } else { rel_close(got, p, 1e-12, p.abs()) };
                    if !okv {
                        return Err(("wrong_element", format!("vandermonde[{},{}] = {:e}, expected x^{} = {:e} (x = {:e})", i, j, got, j, p, xi)));
                    }
                    p *= xi;
                }
            }
        }
        Op::Design { m } => {
            need_m!(m);
            let mo = &w.mm[*m];
            // x interpreted column-major with mo.r rows (as the GLM code passes it)
            let x = mo.d.clone();
            let (r, c) = (mo.r, mo.c);
            let out = catch(|| design(&x, r)).map_err(|e| ("valid_rejected", format!("design panicked: {}", e)))?;
            let mut exp = vec![0.0; r * (c + 1)];
            for i in 0..r {
                exp[i * (c + 1)] = 1.0;
                for j in 0..c {
                    exp[i * (c + 1) + j + 1] = x[j * r + i];
                }
            }
            vec_check(&out, &exp, "design")?;
            let isd = catch(|| is_design(&out, r)).map_err(|e| ("valid_rejected", format!("is_design panicked: {}", e)))?;
            if !isd {
                return Err(("predicate_wrong", "is_design(design(x)) is false".into()));
            }
            // impossible shapes: data that do not fill whole columns of `rows` values must be rejected
            if r >= 2 {
                for cut in [1usize, r - 1, r + 1] {
                    if cut < x.len() + r && cut % r != 0 {
                        let ragged: Vec<f64> = if cut <= x.len() { x[..x.len() - cut].to_vec() } else { x[..x.len().min(r - 1)].to_vec() };
                        if ragged.len() % r != 0 {
                            st.inc("design.ragged_request");
                            let rr = r;
                            if let Ok(v) = catch(move || design(&ragged, rr)) {
                                return Err(("impossible_accepted", format!("design of {} values with {} rows (not a whole number of columns) returned {} values instead of panicking", x.len().saturating_sub(cut), r, v.len())));
                            }
                        }
                    }
                }
            }
        }
        Op::Linspace { a, b, n } => {
            let (a, b, n) = (a.0, b.0, *n);
            let out = catch(|| linspace(a, b, n)).map_err(|e| ("valid_rejected", format!("linspace({:e},{:e},{}) panicked: {}", a, b, n, e)))?;
            if out.len() != n {
                return Err(("grid_wrong", format!("linspace({:e},{:e},{}) has {} points", a, b, n, out.len())));
            }
            let scale = a.abs().max(b.abs()).max((b - a).abs());
            for i in 0..n {
                let exp = if n == 1 { a } else { a + (b - a) * (i as f64 / (n - 1) as f64) };
                if !rel_close(out[i], exp, 1e-12, scale) {
                    return Err(("grid_wrong", format!("linspace({:e},{:e},{})[{}] = {:e}, expected {:e}", a, b, n, i, out[i], exp)));
                }
            }
            if n >= 1 && out[0].to_bits() != a.to_bits() && !(a == 0.0 && out[0] == 0.0) {
                return Err(("grid_wrong", format!("linspace first point {:e} != start {:e}", out[0], a)));
            }
        }
        Op::Arange { a, b, step } => {
            let (a, b, s) = (a.0, b.0, step.0);
            let out = catch(|| arange(a, b, s)).map_err(|e| ("valid_rejected", format!("arange({:e},{:e},{:e}) panicked: {}", a, b, s, e)))?;
            let ratio = (b - a) / s;
            let scale = a.abs().max(b.abs()).max(s.abs());
            // documented: half-open [start, stop)
            // Two natural readings of "the grid points inside [start, stop)": ceil of the ratio, and
            // the number of i with (start + i*step) on the near side of stop in f64. They can differ
            // by one when the ratio is within rounding of an integer; then either is accepted.
            let (lo, hi) = if !(ratio > 0.0) {
                (0usize, 0usize)
            } else {
                let c1 = ratio.ceil() as usize;
                let inside = |i: usize| {
                    let x = a + i as f64 * s;
                    if s > 0.0 { x < b } else { x > b }
                };
                let mut c2 = c1.saturating_sub(2);
                while inside(c2) && c2 < c1 + 3 {
                    c2 += 1;
                }
                (c1.min(c2), c1.max(c2))
            };
            if out.len() < lo || out.len() > hi {
                return Err(("grid_wrong", format!("arange({:e},{:e},{:e}) has {} points; the half-open grid has {}", a, b, s, out.len(), if lo == hi { format!("{}", lo) } else { format!("{}..={}", lo, hi) })));
            }
            for (i, x) in out.iter().enumerate() {
                let exp = a + i as f64 * s;
                if !rel_close(*x, exp, 1e-12, scale) {
                    return Err(("grid_wrong", format!("arange[{}] = {:e}, expected {:e}", i, x, exp)));
                }
                let beyond = if s > 0.0 { *x - b } else { b - *x };
                if beyond > 1e-9 * scale {
                    return Err(("grid_wrong", format!("arange({:e},{:e},{:e})[{}] = {:e} lies beyond stop", a, b, s, i, x)));
                }
            }
        }
        Op::Rotation { angle, axis } => {
            let th = angle.0;
            let ax = |k: u8| match k {
                0 => Axis::X,
                1 => Axis::Y,
                _ => Axis::Z,
            };
            let cw = catch(|| rotation_matrix_cw(th, ax(*axis))).map_err(|e| ("valid_rejected", format!("rotation_matrix_cw panicked: {}", e)))?;
            let ccw = catch(|| rotation_matrix_ccw(th, ax(*axis))).map_err(|e| ("valid_rejected", format!("rotation_matrix_ccw panicked: {}", e)))?;
            for (name, m) in [("cw", &cw), ("ccw", &ccw)] {
                if m.nrows != 3 || m.ncols != 3 || m.data.len() != 9 {
                    return Err(("wrong_shape", format!("rotation_matrix_{} is {}x{} with {} elements", name, m.nrows, m.ncols, m.data.len())));
                }
                let g = |i: usize, j: usize| m.data[i * 3 + j];
                for i in 0..3 {
                    for j in 0..3 {
                        let dot: f64 = (0..3).map(|k| g(k, i) * g(k, j)).sum();
                        let exp = if i == j { 1.0 } else { 0.0 };
                        if (dot - exp).abs() > 1e-12 {
                            return Err(("rotation_wrong", format!("rotation_matrix_{}({:e}, axis {}) is not orthogonal: (RtR)[{},{}] = {:e}", name, th, axis, i, j, dot)));
                        }
                    }
                }
                let det = g(0, 0) * (g(1, 1) * g(2, 2) - g(1, 2) * g(2, 1)) - g(0, 1) * (g(1, 0) * g(2, 2) - g(1, 2) * g(2, 0)) + g(0, 2) * (g(1, 0) * g(2, 1) - g(1, 1) * g(2, 0));
                if (det - 1.0).abs() > 1e-12 {
                    return Err(("rotation_wrong", format!("rotation_matrix_{}({:e}, axis {}) has determinant {:e}", name, th, axis, det)));
                }
                // the rotation axis is fixed
                let a = *axis as usize % 3;
                for i in 0..3 {
                    let exp = if i == a { 1.0 } else { 0.0 };
                    if g(i, a) != exp || g(a, i) != exp {
                        return Err(("rotation_wrong", format!("rotation_matrix_{} about axis {} does not leave that axis fixed", name, axis)));
                    }
                }
            }
            // cw == ccw^T exactly
            for i in 0..3 {
                for j in 0..3 {
                    if cw.data[i * 3 + j].to_bits() != ccw.data[j * 3 + i].to_bits() && !(cw.data[i * 3 + j] == 0.0 && ccw.data[j * 3 + i] == 0.0) {
                        return Err(("rotation_wrong", format!("cw({:e})[{},{}] = {:e} but ccw^T has {:e}", th, i, j, cw.data[i * 3 + j], ccw.data[j * 3 + i])));
                    }
                }
            }
            // counter-clockwise convention: the in-plane block is [[c,-s],[s,c]] in cyclic axis order
            let a = *axis as usize % 3;
            let (p, q) = ((a + 1) % 3, (a + 2) % 3);
            let (s, c) = (th.sin(), th.cos());
            let e = 4.0 * f64::EPSILON;
            let es = e * s.abs().max(f64::MIN_POSITIVE).min(1.0).max(1e-300); // sine entries: relative
            let g = |i: usize, j: usize| ccw.data[i * 3 + j];
            if (g(p, p) - c).abs() > e || (g(q, q) - c).abs() > e || (g(q, p) - s).abs() > es || (g(p, q) + s).abs() > es {
                return Err(("rotation_wrong", format!("rotation_matrix_ccw({:e}, axis {}) does not rotate counter-clockwise by the angle", th, axis)));
            }
            // a second angle right away that differs from the first only in mantissa bits 6..23 (a relative
            // change of ~4e-9): its matrix must be built from ITS sine and cosine
            let th2 = f64::from_bits(th.to_bits() ^ 0x0000_0000_00FF_FFC0);
            if th2.is_finite() && th2 != th && th.abs() > 1e-3 {
                st.inc("rotation.nearby_angle");
                let m2 = catch(|| rotation_matrix_ccw(th2, ax(*axis))).map_err(|e| ("valid_rejected", format!("rotation_matrix_ccw panicked: {}", e)))?;
                let (s2, c2) = (th2.sin(), th2.cos());
                let g2 = |i: usize, j: usize| m2.data[i * 3 + j];
                let es2 = e * s2.abs().max(f64::MIN_POSITIVE).min(1.0).max(1e-300);
                if m2.data.len() != 9 || (g2(p, p) - c2).abs() > e || (g2(q, q) - c2).abs() > e || (g2(q, p) - s2).abs() > es2 || (g2(p, q) + s2).abs() > es2 {
                    return Err(("rotation_wrong", format!("rotation_matrix_ccw({:e}, axis {}) requested right after the neighbouring angle {:e} is not the rotation by its own angle", th2, axis, th)));
                }
            }
            push_m(w, ccw.clone(), MM { r: 3, c: 3, d: ccw.data.v.clone() });
        }
        Op::Predicates { m } => {
            need_m!(m);
            let mo = w.mm[*m].clone();
            let src = &w.ms[*m];
            let nan_inside = has_nan(&mo.d);
            if nan_inside && mo.r == mo.c {
                // NaN is not zero: the triangular predicates have a definite answer
                st.inc("predicates_with_nan");
                let mut up = true;
                let mut lowt = true;
                for i in 0..mo.r {
                    for j in 0..mo.c {
                        if j < i && mo.at(i, j) != 0.0 {
                            up = false;
                        }
                        if j > i && mo.at(i, j) != 0.0 {
                            lowt = false;
                        }
                    }
                }
                let gu = catch(|| src.is_upper_triangular()).map_err(|e| ("valid_rejected", format!("is_upper_triangular panicked: {}", e)))?;
                let gl = catch(|| src.is_lower_triangular()).map_err(|e| ("valid_rejected", format!("is_lower_triangular panicked: {}", e)))?;
                if gu != up || gl != lowt {
                    return Err(("predicate_wrong", format!("with NaN entries: is_upper_triangular = {} (expected {}), is_lower_triangular = {} (expected {})", gu, up, gl, lowt)));
                }
            }
            if nan_inside {
                st.inc("skipped");
                return Ok(());
            }
            let sq = catch(|| src.is_square()).map_err(|e| ("valid_rejected", format!("is_square panicked: {}", e)))?;
            if sq != (mo.r == mo.c) {
                return Err(("predicate_wrong", format!("is_square() = {} for {}x{}", sq, mo.r, mo.c)));
            }
            // is_matrix(slice, nrows)
            for nr in 1..=4usize {
                let got = catch(|| is_matrix(&mo.d, nr)).map_err(|e| ("valid_rejected", format!("is_matrix panicked: {}", e)))?;
                let exp = if mo.d.len() % nr == 0 { Ok(mo.d.len() / nr) } else { Err(()) };
                if got.clone().map_err(|_| ()) != exp {
                    return Err(("predicate_wrong", format!("is_matrix(len {}, nrows {}) = {:?}", mo.d.len(), nr, got)));
                }
            }
            // symmetric: unambiguous cases only
            let mut exact = mo.r == mo.c;
            let mut clearly_not = mo.r != mo.c;
            if mo.r == mo.c {
                for i in 0..mo.r {
                    for j in 0..mo.c {
                        let (a, b) = (mo.at(i, j), mo.at(j, i));
                        if a != b {
                            exact = false;
                        }
                        // symmetric means a[i][j] == a[j][i]; the library allows itself an absolute slack of
                        // f64::EPSILON, anything beyond 1.5 of it (at any magnitude) is not symmetric
                        if a != b && ((a - b).abs() > 1.5 * f64::EPSILON || (a - b).is_nan()) {
                            clearly_not = true;
                        }
                    }
                }
            }
            let sym = catch(|| src.is_symmetric()).map_err(|e| ("valid_rejected", format!("is_symmetric panicked: {}", e)))?;
            if (exact && !sym) || (clearly_not && sym) {
                return Err(("predicate_wrong", format!("Matrix::is_symmetric() = {} for a {}x{} matrix that is {}", sym, mo.r, mo.c, if exact { "exactly symmetric" } else { "clearly not symmetric" })));
            }
            if mo.r == mo.c {
                let d = mo.d.clone();
                let sym2 = catch(|| is_symmetric(&d)).map_err(|e| ("valid_rejected", format!("is_symmetric(slice) panicked: {}", e)))?;
                if (exact && !sym2) || (clearly_not && sym2) {
                    return Err(("predicate_wrong", format!("is_symmetric(slice) = {} for a {}x{} matrix", sym2, mo.r, mo.c)));
                }
                let sqs = catch(|| is_square(&d)).map_err(|e| ("valid_rejected", format!("is_square(slice) panicked: {}", e)))?;
                if sqs != Ok(mo.r) {
                    return Err(("predicate_wrong", format!("is_square(slice of {}x{}) = {:?}", mo.r, mo.c, sqs)));
                }
                // triangular (square matrices): entries strictly below / above the diagonal all zero
                let mut up = true;
                let mut lowt = true;
                for i in 0..mo.r {
                    for j in 0..mo.c {
                        if j < i && mo.at(i, j) != 0.0 {
                            up = false;
                        }
                        if j > i && mo.at(i, j) != 0.0 {
                            lowt = false;
                        }
                    }
                }
                let gu = catch(|| src.is_upper_triangular()).map_err(|e| ("valid_rejected", format!("is_upper_triangular panicked: {}", e)))?;
                let gl = catch(|| src.is_lower_triangular()).map_err(|e| ("valid_rejected", format!("is_lower_triangular panicked: {}", e)))?;
                if gu != up || gl != lowt {
                    return Err(("predicate_wrong", format!("is_upper_triangular = {} (expected {}), is_lower_triangular = {} (expected {})", gu, up, gl, lowt)));
                }
                // query -> in-place change -> query on the SAME live object: column 0 is negated in place
                // (exactly reversible), the predicates are asked again and must follow the data, then the
                // column is negated back
                if mo.r >= 2 {
                    st.inc("predicates.requeried_after_in_place_change");
                    let mut m2 = mo.clone();
                    for i in 0..m2.r {
                        let v = -m2.at(i, 0);
                        m2.d[i * m2.c] = v;
                    }
                    let (mut ex2, mut not2, mut up2, mut low2) = (true, false, true, true);
                    for i in 0..m2.r {
                        for j in 0..m2.c {
                            let (a, b) = (m2.at(i, j), m2.at(j, i));
                            if a != b {
                                ex2 = false;
                                if (a - b).abs() > 1.5 * f64::EPSILON || (a - b).is_nan() {
                                    not2 = true;
                                }
                            }
                            if j < i && a != 0.0 {
                                up2 = false;
                            }
                            if j > i && a != 0.0 {
                                low2 = false;
                            }
                        }
                    }
                    let live = &mut w.ms[*m];
                    let got = catch(|| {
                        live.apply_along_col(0, |x| -x);
                        let r = (live.is_symmetric(), live.is_upper_triangular(), live.is_lower_triangular());
                        live.apply_along_col(0, |x| -x);
                        r
                    })
                    .map_err(|e| ("valid_rejected", format!("predicates after an in-place column map panicked: {}", e)))?;
                    if (ex2 && !got.0) || (not2 && got.0) || got.1 != up2 || got.2 != low2 {
                        return Err(("predicate_wrong", format!("after negating column 0 in place: is_symmetric = {} ({}), is_upper_triangular = {} (expected {}), is_lower_triangular = {} (expected {}): the answers do not follow the data", got.0, if ex2 { "exactly symmetric now" } else if not2 { "clearly not symmetric now" } else { "undecided" }, got.1, up2, got.2, low2)));
                    }
                }
            }
            // design: first column all ones
            let d = mo.d.clone();
            let exact_design = (0..mo.r).all(|i| mo.at(i, 0) == 1.0);
            let clearly_not_design = (0..mo.r).any(|i| (mo.at(i, 0) - 1.0).abs() > 1e-9);
            let isd = catch(|| is_design(&d, mo.r)).map_err(|e| ("valid_rejected", format!("is_design panicked: {}", e)))?;
            if (exact_design && !isd) || (clearly_not_design && isd) {
                return Err(("predicate_wrong", format!("is_design = {} for a matrix whose first column is {}", isd, if exact_design { "all ones" } else { "not all ones" })));
            }
        }
        Op::EqClose { a, b, tol } => {
            need_m!(a);
            need_m!(b);
            let (ma, mb) = (w.mm[*a].clone(), w.mm[*b].clone());
            if has_nan(&ma.d) || has_nan(&mb.d) {
                st.inc("skipped");
                return Ok(());
            }
            let (x, y) = (&w.ms[*a], &w.ms[*b]);
            cmp_oracle(x, y, &ma, &mb, tol.0)?;
        }
        Op::CmpPerturbed { m, kind, k, delta, tol } => {
            need_m!(m);
            let mo = w.mm[*m].clone();
            if has_nan(&mo.d) || mo.d.iter().any(|x| x.is_infinite()) {
                st.inc("skipped");
                return Ok(());
            }
            let mut other = mo.clone();
            let kk = *k % mo.d.len();
            match kind {
                0 => {}
                1 => {
                    // opposite sign, magnitude >= 1e-3
                    if other.d[kk].abs() < 1e-3 {
                        other.d[kk] = 0.75;
                    }
                    let mut base = mo.clone();
                    base.d[kk] = other.d[kk];
                    other.d[kk] = -other.d[kk];
                    let x = Matrix::new(base.d.clone(), base.r as i32, base.c as i32);
                    let y = Matrix::new(other.d.clone(), other.r as i32, other.c as i32);
                    st.inc("cmp.opposite_sign");
                    return cmp_oracle(&x, &y, &base, &other, tol.0);
                }
                2 => {
                    if other.d[kk].abs() < 1e-3 {
                        other.d[kk] = 1.5;
                    }
                    let mut base = mo.clone();
                    base.d[kk] = other.d[kk];
                    other.d[kk] *= 1.0 + delta.0;
                    let x = Matrix::new(base.d.clone(), base.r as i32, base.c as i32);
                    let y = Matrix::new(other.d.clone(), other.r as i32, other.c as i32);
                    st.inc("cmp.scaled");
                    return cmp_oracle(&x, &y, &base, &other, tol.0);
                }
                4 | 5 => {
                    // numerically equal / within-tolerance values around zero must compare close:
                    // +0.0 vs -0.0, and 0.0 vs a value far inside the (absolute) tolerance
                    let mut base = mo.clone();
                    base.d[kk] = if delta.0 < 0.0 { -0.0 } else { 0.0 };
                    other.d[kk] = if *kind == 4 { -base.d[kk] } else { tol.0 * 1e-4 * if delta.0 > 0.1 { -1.0 } else { 1.0 } };
                    let x = Matrix::new(base.d.clone(), base.r as i32, base.c as i32);
                    let y = Matrix::new(other.d.clone(), other.r as i32, other.c as i32);
                    st.inc("cmp.around_zero");
                    let ct = catch(|| x.close_to(&y, tol.0)).map_err(|e| ("valid_rejected", format!("close_to panicked: {}", e)))?;
                    let vct = catch(|| x.data.close_to(&y.data, tol.0)).map_err(|e| ("valid_rejected", format!("close_to panicked: {}", e)))?;
                    if !ct || !vct {
                        return Err(("comparison_wrong", format!("close_to(tol {:e}) is false for {:e} vs {:e} (all other elements identical)", tol.0, base.d[kk], other.d[kk])));
                    }
                    if *kind == 4 {
                        let eq = catch(|| x == y).map_err(|e| ("valid_rejected", format!("== panicked: {}", e)))?;
                        if !eq {
                            return Err(("comparison_wrong", "== is false for matrices differing only in the sign of a zero".into()));
                        }
                    }
                    return Ok(());
                }
                8 | 9 => {
                    // vectors of different length are never equal and never close, even when one is a
                    // prefix of the other (8: one element dropped, 9: one appended; both directions)
                    let vx = Vector::new(mo.d.clone());
                    let mut yd = mo.d.clone();
                    if *kind == 8 {
                        yd.pop();
                    } else {
                        yd.push(if delta.0 > 0.1 { 0.0 } else { mo.d[mo.d.len() - 1] });
                    }
                    let vy = Vector::new(yd);
                    st.inc("cmp.prefix_vectors");
                    for (a, b) in [(&vx, &vy), (&vy, &vx)] {
                        let ct = catch(|| a.close_to(b, tol.0)).map_err(|e| ("valid_rejected", format!("Vector::close_to panicked: {}", e)))?;
                        let eq = catch(|| a == b).map_err(|e| ("valid_rejected", format!("Vector == panicked: {}", e)))?;
                        if ct || eq {
                            return Err(("comparison_wrong", format!("vectors of length {} and {} (one a prefix of the other): close_to = {}, == = {}", a.len(), b.len(), ct, eq)));
                        }
                    }
                    return Ok(());
                }
                6 | 7 => {
                    // any magnitude, down to the subnormals: non-zero values of opposite sign are never
                    // close (6); values of the same sign are close exactly when their relative difference
                    // is within the tolerance, whatever their scale (7)
                    const MAGS: [f64; 14] = [1e-17, 3e-9, 1e-170, 5e-324, 1e-300, 2.2e-16, 1e-5, 7e-155, 1e-30, 4e-162, 2.0, f64::INFINITY, 1e300, 0.75];
                    let mag = MAGS[(*k / 3) % MAGS.len()] * if *k % 2 == 0 { 1.0 } else { -1.0 };
                    let mut base = mo.clone();
                    base.d[kk] = mag;
                    other.d[kk] = if *kind == 6 { -mag * if delta.0 > 0.1 { 3.0 } else { 1.0 } } else { mag * (1.0 + delta.0) };
                    let x = Matrix::new(base.d.clone(), base.r as i32, base.c as i32);
                    let y = Matrix::new(other.d.clone(), other.r as i32, other.c as i32);
                    st.inc(if *kind == 6 { "cmp.opposite_sign_tiny" } else { "cmp.scaled_tiny" });
                    return cmp_oracle(&x, &y, &base, &other, tol.0);
                }
                _ => {
                    // same buffer, different shape
                    other = MM { r: mo.c, c: mo.r, d: mo.d.clone() };
                    st.inc("cmp.same_buffer_other_shape");
                }
            }
            let x = w.ms[*m].clone();
            let y = Matrix::new(other.d.clone(), other.r as i32, other.c as i32);
            cmp_oracle(&x, &y, &mo, &other, tol.0)?;
        }
    }
    Ok(())
}

/// eq / close_to on matrices (and on their data vectors): unambiguous cases decide
fn cmp_oracle(x: &Matrix, y: &Matrix, mx: &MM, my: &MM, tol: f64) -> Result<(), (&'static str, String)> {
    let same_shape = mx.r == my.r && mx.c == my.c;
    let identical = same_shape && slice_bits_eq(&mx.d, &my.d).is_none();
    let eq = catch(|| x == y).map_err(|e| ("valid_rejected", format!("== panicked: {}", e)))?;
    let clearly_diff = !same_shape || mx.d.iter().zip(&my.d).any(|(a, b)| (a - b).abs() > 1e-9 || (a.is_infinite() && a != b));
    if identical && !eq {
        return Err(("comparison_wrong", "== is false for two identical matrices".into()));
    }
    if clearly_diff && eq {
        return Err(("comparison_wrong", format!("== is true for matrices of shape {}x{} / {}x{} that differ clearly", mx.r, mx.c, my.r, my.c)));
    }
    // close_to: relative tolerance tol (<= 1e-6 in generated cases)
    let ct = catch(|| x.close_to(y, tol)).map_err(|e| ("valid_rejected", format!("close_to panicked: {}", e)))?;
    // "never equate values of opposite sign": two non-zero values of different sign, at any magnitude
    let opposite = same_shape && mx.d.iter().zip(&my.d).any(|(a, b)| *a != 0.0 && *b != 0.0 && !a.is_nan() && !b.is_nan() && ((*a < 0.0) != (*b < 0.0)));
    // relative difference of two non-zero finite values of the same sign (the documented notion of
    // "close within a tolerance"; with a zero involved the comparison is absolute and is only decided
    // by the around-zero cases of CmpPerturbed)
    let rd = |a: f64, b: f64| -> Option<f64> {
        if a != 0.0 && b != 0.0 && a.is_finite() && b.is_finite() && ((a < 0.0) == (b < 0.0)) {
            Some(((a.abs() - b.abs()).abs()) / a.abs().min(b.abs()))
        } else {
            None
        }
    };
    let clearly_far = !same_shape || mx.d.iter().zip(&my.d).any(|(a, b)| {
        let m = a.abs().min(b.abs());
        ((a.abs() >= 1e-3 || b.abs() >= 1e-3) && (a - b).abs() > 100.0 * tol * m.max(1e-3) && (a - b).abs() > 100.0 * tol * a.abs().max(b.abs()))
            || rd(*a, *b).map_or(false, |d| d > tol * (1.0 + 1e-9) + 1e-300)
    });
    let clearly_close = same_shape && mx.d.iter().zip(&my.d).all(|(a, b)| a.to_bits() == b.to_bits() || (*a == *b && a.is_finite()) || rd(*a, *b).map_or(false, |d| d < tol * (1.0 - 1e-9)));
    if (identical || clearly_close) && !ct {
        return Err(("comparison_wrong", format!("close_to(tol {:e}) is false for two matrices whose elements are pairwise identical or within the tolerance", tol)));
    }
    if opposite && ct {
        return Err(("comparison_wrong_sign", format!("close_to(tol {:e}) equates values of opposite sign", tol)));
    }
    if clearly_far && ct {
        return Err(("comparison_wrong", format!("close_to(tol {:e}) is true for matrices ({}x{} / {}x{}) that differ by far more than the tolerance", tol, mx.r, mx.c, my.r, my.c)));
    }
    if same_shape {
        let (vx, vy) = (x.data.clone(), y.data.clone());
        let vct = catch(|| vx.close_to(&vy, tol)).map_err(|e| ("valid_rejected", format!("Vector::close_to panicked: {}", e)))?;
        let veq = catch(|| vx == vy).map_err(|e| ("valid_rejected", format!("Vector == panicked: {}", e)))?;
        if ((identical || clearly_close) && !vct) || ((opposite || clearly_far) && vct) || (identical && !veq) || (clearly_diff && veq) {
            return Err((if opposite && vct { "comparison_wrong_sign" } else { "comparison_wrong" }, format!("Vector comparison: close_to = {}, == = {} (identical {}, opposite-sign {}, clearly different {})", vct, veq, identical, opposite, clearly_diff)));
        }
    }
    Ok(())
}

// ---- generation ------------------------------------------------------------------------------

fn gen_val(r: &mut Sm, special: bool) -> f64 {
    if special && r.chance(0.08) {
        return *r.pick(&[0.0, -0.0, f64::INFINITY, f64::NEG_INFINITY, f64::NAN, 1e-310, f64::MAX, 1.0]);
    }
    match r.below(4) {
        0 => r.range(-9, 9) as f64,
        1 => (r.range(-4000, 4000) as f64) / 128.0,
        2 => (r.f64() - 0.5) * 2e3,
        _ => *r.pick(&[0.0, 1.0, -1.0, 0.5, 2.0]),
    }
}

thread_local! {
    /// set while a "big" program is generated (generation only; execution reads the operation list)
    static BIG: std::cell::Cell<bool> = const { std::cell::Cell::new(false) };
}

/// a row / column count: 1..=8 as the property quantifies, 9..=70 in the few "big" programs that
/// look beyond it (size thresholds of blocked / tiled / bulk code paths)
fn dim(r: &mut Sm) -> usize {
    if BIG.with(|b| b.get()) { r.usize(9, 70) } else { r.usize(1, 8) }
}

fn gen_dims_for(r: &mut Sm, len: usize, want_valid: bool) -> (i32, i32) {
    for _ in 0..30 {
        let (a, b) = match r.below(6) {
            0 => (-1, r.range(1, 8) as i32),
            1 => (r.range(1, 8) as i32, -1),
            2 => {
                let a = r.range(1, 8) as i32;
                (a, (len as i32 / a).max(1))
            }
            3 => (*r.pick(&[0, -2, -1, 1, 3]), *r.pick(&[0, -1, -3, 2])),
            4 => (1, len as i32),
            _ => (r.range(1, 8) as i32, r.range(1, 8) as i32),
        };
        if resolve_shape(len, a, b).is_some() == want_valid {
            return (a, b);
        }
    }
    if want_valid { (1, len as i32) } else { (0, 0) }
}

/// generator-side shadow of the pool shapes (approximate; exec decides validity itself)
#[derive(Default)]
struct Tracker {
    ms: Vec<(usize, usize)>,
    vs: Vec<usize>,
}
impl Tracker {
    fn pm(&mut self, s: (usize, usize)) {
        if self.ms.len() >= MAXP {
            self.ms.remove(0);
        }
        self.ms.push(s);
    }
    fn pv(&mut self, n: usize) {
        if self.vs.len() >= MAXP {
            self.vs.remove(0);
        }
        self.vs.push(n);
    }
    fn track(&mut self, op: &Op) {
        let g = |ms: &Vec<(usize, usize)>, i: usize| ms.get(i).copied();
        match op {
            Op::New { data, r, c } => {
                if let Some(s) = resolve_shape(data.len(), *r, *c) {
                    self.pm(s)
                }
            }
            Op::Zeros { r, c } | Op::Ones { r, c } | Op::WithShape { r, c } => self.pm((*r, *c)),
            Op::Eye { n } => {
                if *n <= 8 {
                    self.pm((*n, *n))
                }
            }
            Op::CloneM { m } => {
                if let Some(s) = g(&self.ms, *m) {
                    self.pm(s)
                }
            }
            Op::DropM { m } => {
                if *m < self.ms.len() && self.ms.len() > 1 {
                    self.ms.remove(*m);
                }
            }
            Op::DropV { v } => {
                if *v < self.vs.len() {
                    self.vs.remove(*v);
                }
            }
            Op::NewVec { data } => self.pv(data.len()),
            Op::Reshape { m, r, c } => {
                if let Some((a, b)) = g(&self.ms, *m) {
                    if let Some(s) = resolve_shape(a * b, *r, *c) {
                        self.pm(s)
                    }
                }
            }
            Op::ReshapeMut { m, r, c } => {
                if let Some((a, b)) = g(&self.ms, *m) {
                    if let Some(s) = resolve_shape(a * b, *r, *c) {
                        self.ms[*m] = s
                    }
                }
            }
            Op::T { m } => {
                if let Some((a, b)) = g(&self.ms, *m) {
                    self.pm((b, a))
                }
            }
            Op::TMut { m } => {
                if let Some((a, b)) = g(&self.ms, *m) {
                    self.ms[*m] = (b, a)
                }
            }
            Op::Hcat { a, b } => {
                if let (Some(x), Some(y)) = (g(&self.ms, *a), g(&self.ms, *b)) {
                    if x.0 == y.0 {
                        self.pm((x.0, x.1 + y.1))
                    }
                }
            }
            Op::Vcat { a, b } => {
                if let (Some(x), Some(y)) = (g(&self.ms, *a), g(&self.ms, *b)) {
                    if x.1 == y.1 {
                        self.pm((x.0 + y.0, x.1))
                    }
                }
            }
            Op::Hrepeat { m, n } => {
                if let Some((a, b)) = g(&self.ms, *m) {
                    self.pm((a, b * n))
                }
            }
            Op::Vrepeat { m, n } => {
                if let Some((a, b)) = g(&self.ms, *m) {
                    self.pm((a * n, b))
                }
            }
            Op::GetRow { m, i } => {
                if let Some((a, b)) = g(&self.ms, *m) {
                    if *i < a {
                        self.pv(b)
                    }
                }
            }
            Op::GetCol { m, j } => {
                if let Some((a, b)) = g(&self.ms, *m) {
                    if *j < b {
                        self.pv(a)
                    }
                }
            }
            Op::Diag { m } => {
                if let Some((a, b)) = g(&self.ms, *m) {
                    self.pv(a.min(b))
                }
            }
            Op::ToVec { m } => {
                if let Some((a, b)) = g(&self.ms, *m) {
                    self.pv(a * b)
                }
            }
            Op::VecToMatrix { v } => {
                if let Some(n) = self.vs.get(*v).copied() {
                    if n > 0 {
                        self.pm((1, n))
                    }
                }
            }
            Op::VecReshape { v, r, c } => {
                if let Some(n) = self.vs.get(*v).copied() {
                    if let Some(s) = resolve_shape(n, *r, *c) {
                        self.pm(s)
                    }
                }
            }
            Op::DiagMatrix { v } | Op::Toeplitz { v } => {
                if let Some(n) = self.vs.get(*v).copied() {
                    if n > 0 && n <= 8 {
                        self.pm((n, n))
                    }
                }
            }
            Op::Rotation { .. } => self.pm((3, 3)),
            _ => {}
        }
    }
}

fn gen_op(r: &mut Sm, tr: &Tracker, weights: &[u32; 6], p_fault: f64, special: bool) -> Op {
    let m = r.below(tr.ms.len().max(1) as u64) as usize;
    let v = r.below(tr.vs.len().max(1) as u64) as usize;
    let total: u32 = weights.iter().sum();
    let mut t = r.below(total as u64) as u32;
    let mut cls = 0;
    for (i, wgt) in weights.iter().enumerate() {
        if t < *wgt {
            cls = i;
            break;
        }
        t -= wgt;
    }
    let fault = r.chance(p_fault);
    let (tr_r, tr_c) = tr.ms.get(m).copied().unwrap_or((4, 4));
    let idx = |r: &mut Sm| if fault { r.usize(0, 12) } else { r.usize(0, tr_r.max(tr_c).max(1) - 1) };
    match cls {
        0 => match r.below(8) {
            0 | 1 => {
                let (rr, cc) = (dim(r), dim(r));
                let len = if fault { r.usize(1, 40) } else { rr * cc };
                let wv = r.chance(0.4);
                let (a, b) = if fault { gen_dims_for(r, len, wv) } else if r.chance(0.3) { gen_dims_for(r, len, true) } else { (rr as i32, cc as i32) };
                Op::New { data: (0..len).map(|_| Fb(gen_val(r, special))).collect(), r: a, c: b }
            }
            2 => Op::Zeros { r: dim(r), c: dim(r) },
            3 => Op::Ones { r: dim(r), c: dim(r) },
            4 => Op::Eye { n: if r.chance(0.2) { r.usize(9, 64) } else { r.usize(1, 8) } },
            5 => Op::WithShape { r: dim(r), c: dim(r) },
            6 => Op::CloneM { m },
            _ => Op::NewVec { data: (0..if r.chance(0.15) { r.usize(11, 64) } else { r.usize(1, 10) }).map(|_| Fb(gen_val(r, special))).collect() },
        },
        1 => {
            // shape-changing
            let want_valid = !fault;
            match r.below(9) {
                0 | 1 => {
                    let len = match tr.ms.get(m) {
                        Some((a, b)) => a * b,
                        None => *r.pick(&[1usize, 2, 3, 4, 6, 8, 9, 12, 16, 24, 30]),
                    };
                    let (a, b) = gen_dims_for(r, len, want_valid);
                    if r.chance(0.5) { Op::Reshape { m, r: a, c: b } } else { Op::ReshapeMut { m, r: a, c: b } }
                }
                2 => Op::T { m },
                3 => Op::TMut { m },
                4 => Op::Hcat { a: m, b: r.below(tr.ms.len().max(1) as u64) as usize },
                5 => Op::Vcat { a: m, b: r.below(tr.ms.len().max(1) as u64) as usize },
                6 => Op::Hrepeat { m, n: r.usize(1, 3) },
                7 => Op::Vrepeat { m, n: r.usize(1, 3) },
                _ => {
                    let (a, b) = (*r.pick(&[-1, 1, 2, 3, 4, 5]), *r.pick(&[-1, 1, 2, 3, 4, 6]));
                    Op::VecReshape { v, r: a, c: b }
                }
            }
        }
        2 => match r.below(10) {
            0 => Op::GetRow { m, i: idx(r) },
            1 => Op::GetCol { m, j: idx(r) },
            2 => Op::ApplyRow { m, i: idx(r), f: r.below(4) as u8, panic_at: if r.chance(0.25) { Some(r.usize(0, 5)) } else { None } },
            3 => Op::ApplyCol { m, j: idx(r), f: r.below(4) as u8, panic_at: if r.chance(0.25) { Some(r.usize(0, 5)) } else { None } },
            4 => Op::FlatIdx { m, k: if fault { r.usize(0, 70) } else { r.usize(0, 15) } },
            5 => Op::FlatReplace { m, k: if fault { r.usize(0, 70) } else { r.usize(0, 15) }, v: Fb(gen_val(r, special)) },
            6 => Op::IndexRow { m, i: idx(r) },
            7 => Op::Index2 { m, i: idx(r), j: idx(r) },
            8 => Op::IndexMut2 { m, i: idx(r), j: idx(r), v: Fb(gen_val(r, special)) },
            _ => Op::IndexMutRow { m, i: idx(r), j: idx(r), v: Fb(gen_val(r, special)) },
        },
        3 => match r.below(9) {
            0 => Op::Diag { m },
            1 => Op::IterRows { m },
            2 => Op::ToVec { m },
            3 => Op::VecToMatrix { v },
            4 => Op::RowToColMajor { m },
            5 => Op::ColToRowMajor { m },
            6 => Op::TransposeFn { m },
            7 => Op::DataMut { m, k: r.usize(0, 20), v: Fb(gen_val(r, special)) },
            _ => if r.chance(0.5) { Op::DropM { m } } else { Op::DropV { v } },
        },
        4 => match r.below(8) {
            0 => Op::DiagMatrix { v },
            1 => Op::Toeplitz { v },
            2 => Op::Vandermonde { v, n: r.usize(1, 6) },
            3 => Op::Design { m },
            4 => {
                let a = gen_val(r, false);
                let b = if r.chance(0.1) { a } else { gen_val(r, false) };
                Op::Linspace { a: Fb(a), b: Fb(b), n: *r.pick(&[1usize, 2, 3, 5, 10, 11, 64]) }
            }
            5 => {
                let a = if r.chance(0.4) { *r.pick(&[0.0, 0.1, 1.0, -2.0, 0.5]) } else { gen_val(r, false) };
                let s = *r.pick(&[1.0, 0.5, 0.25, 0.1, 0.3, 0.7, 2.0, 3.0, -1.0, -0.25, -0.3, 1.5]);
                let npts = r.usize(0, 64) as f64;
                let frac = *r.pick(&[0.0, 0.0, 0.5, 0.25, 0.9, 1e-3, -0.5]);
                let mut b = if r.chance(0.12) { a - s * (1.0 + npts) } else { a + s * (npts + frac) };
                if r.chance(0.3) {
                    // decimal-looking end point: the ratio is within rounding of an integer, from either side
                    b = ((a + s * npts) * 10.0).round() / 10.0;
                } else if r.chance(0.05) {
                    // an interval far shorter than the step still contains its start
                    b = a + s * 1e-11;
                }
                if r.chance(0.04) {
                    // the same grid at a coherently tiny (or huge) scale: start, stop and step all scaled
                    let sc = *r.pick(&[f64::from_bits(0x1430000000000000), 1e-200, 1e-300, 1e150]); // 2^-700, ...
                    return Op::Arange { a: Fb(a * sc), b: Fb(b * sc), step: Fb(s * sc) };
                }
                Op::Arange { a: Fb(a), b: Fb(b), step: Fb(s) }
            }
            _ => {
                let pi = std::f64::consts::PI;
                let angle = match r.below(5) {
                    // special and tiny angles: sin(x) = x is not 0, multiples of pi/2, both signs
                    0 => *r.pick(&[0.0, -0.0, 1e-9, -1e-9, 1e-12, 3e-8, -1e-15, 1e-300, pi / 2.0, -pi / 2.0, pi, -pi, 2.0 * pi, -2.0 * pi, 4.0 * pi, -4.0 * pi, pi / 4.0, 3.0 * pi]),
                    // every whole number of quarter turns in +-4 pi, computed as the caller would (k * FRAC_PI_2, k * PI / 2)
                    4 if r.chance(0.5) => {
                        let k = r.range(-8, 8) as f64;
                        if r.chance(0.5) { k * std::f64::consts::FRAC_PI_2 } else { k * pi / 2.0 }
                    }
                    1 => (r.f64() - 0.5) * *r.pick(&[1e-3, 1e-6, 1e-8, 1e-10]),
                    _ => (r.f64() - 0.5) * 8.0 * pi,
                };
                Op::Rotation { angle: Fb(angle), axis: r.below(3) as u8 }
            }
        },
        _ => match r.below(4) {
            0 => Op::Predicates { m },
            1 => Op::EqClose { a: m, b: r.below(tr.ms.len().max(1) as u64) as usize, tol: Fb(*r.pick(&[1e-6, 1e-9, 1e-12, 0.0])) },
            _ => Op::CmpPerturbed { m, kind: r.below(10) as u8, k: r.usize(0, 63), delta: Fb(*r.pick(&[1e-3, 1e-2, 0.5, -1e-3, 1e-13, 0.6, 0.8, 3.0])), tol: Fb(*r.pick(&[1e-6, 1e-9, 0.0, 0.5, 2.0, 10.0])) },
        },
    }
}

impl Prop for C15 {
    const ID: &'static str = "C15";
    type Case = Case;

    fn runs(tier: Tier) -> u64 {
        match tier {
            Tier::Quick => 200_000,
            Tier::Thorough => 12_000_000,
        }
    }
    fn chunk(tier: Tier) -> u64 {
        match tier {
            Tier::Quick => 4_000,
            Tier::Thorough => 50_000,
        }
    }

    fn gen(seed: u64, run: u64, _tier: Tier) -> Case {
        let mut r = Sm::new(mix3(seed, str_id("C15"), run));
        // swarm: class weights (create, reshape, access, convert, constructors, predicates)
        let weights = [1 + r.below(3) as u32, r.below(5) as u32 + 1, r.below(5) as u32, r.below(4) as u32, r.below(4) as u32, r.below(3) as u32];
        let p_fault = *r.pick(&[0.0, 0.1, 0.25, 0.5]);
        let special = r.chance(0.3);
        let big = r.chance(0.03);
        BIG.with(|b| b.set(big));
        let n = if big { 1 + r.below(10) as usize } else { 1 + r.below(40) as usize };
        let mut ops = vec![];
        // start from one explicit matrix so that early ops have something to act on
        let (rr, cc) = (dim(&mut r), dim(&mut r));
        let sym = r.chance(0.15) && rr == cc;
        let mut data: Vec<f64> = (0..rr * cc).map(|_| gen_val(&mut r, special)).collect();
        let tri_nan = rr == cc && rr >= 2 && r.chance(0.04);
        if r.chance(0.1) || tri_nan {
            // structured: triangular / symmetric / design-like starts for the predicates
            for i in 0..rr {
                for j in 0..cc {
                    if j < i {
                        data[i * cc + j] = if r.chance(0.2) { -0.0 } else { 0.0 };
                    }
                }
            }
        }
        if tri_nan {
            // a lone NaN in the part that should be zero
            let (i, j) = (1 + r.below(rr as u64 - 1) as usize, 0usize);
            data[i * cc + j] = f64::NAN;
        }
        if sym {
            for i in 0..rr {
                for j in 0..i {
                    data[i * cc + j] = data[j * cc + i];
                }
            }
            // almost symmetric: one mirrored pair a few representable steps apart (at magnitudes above 2
            // that is more than the absolute slack the predicate allows itself)
            if rr >= 2 && r.chance(0.35) {
                let (i, j) = (1 + r.below(rr as u64 - 1) as usize, 0usize);
                let base = *r.pick(&[2.0, 1000.0, -37.5, 1e6, 0.75, 3.0]);
                let steps = 1 + r.below(4);
                data[j * cc + i] = base;
                data[i * cc + j] = f64::from_bits(base.to_bits() + steps);
            }
        }
        let mut tr = Tracker::default();
        ops.push(Op::New { data: fbs(&data), r: rr as i32, c: cc as i32 });
        tr.track(&ops[0]);
        for _ in 1..n {
            let op = gen_op(&mut r, &tr, &weights, p_fault, special);
            tr.track(&op);
            ops.push(op);
        }
        let fill = *r.pick(&Fill::ALL);
        Case { ops, fill, scribble: r.chance(0.3), junk: Hx(r.next()) }
    }

    fn exec(case: &Case, st: &mut Stats) -> Option<Viol> {
        alea::sim::reset(alea::sim::DEFAULT_THREAD_INIT);
        let mut w = World { ms: vec![], mm: vec![], vs: vec![], vm: vec![] };
        let mut h = H64::new();
        let mut dh = H64::new();
        let mut verdict = None;
        let mut prev = "start";
        st.inc(&format!("fill.{}", case.fill.name()));
        for (si, op) in case.ops.iter().enumerate() {
            let name = op_name(op);
            st.inc("ops");
            st.inc(&format!("op.{}", name));
            st.inc(&format!("bigram.{}>{}", prev, name));
            let rej0 = st.counters.get("outcome.rejected").copied().unwrap_or(0);
            let cb0 = st.counters.get("fault.callback_panic").copied().unwrap_or(0);
            alloc_seam::set_policy(case.fill, case.scribble, case.junk.0 ^ si as u64);
            let res = step(&mut w, op, st);
            alloc_seam::reset_policy();
            let outcome = if res.is_err() {
                3
            } else if st.counters.get("fault.callback_panic").copied().unwrap_or(0) > cb0 {
                2
            } else if st.counters.get("outcome.rejected").copied().unwrap_or(0) > rej0 {
                1
            } else {
                0
            };
            dh.s(name);
            dh.u(outcome);
            h.s(name);
            h.u(outcome);
            let mut bad = res.err();
            if bad.is_none() {
                // lock-step: every object equals its model after every step
                for (i, m) in w.ms.iter().enumerate() {
                    if let Err(e) = check_matrix(m, &w.mm[i]) {
                        bad = Some(e);
                        break;
                    }
                }
                if bad.is_none() {
                    for (i, v) in w.vs.iter().enumerate() {
                        if let Err(e) = vec_check(v, &w.vm[i], "pooled vector") {
                            bad = Some(e);
                            break;
                        }
                    }
                }
            }
            if let Some((class, detail)) = bad {
                verdict = Some(Viol::new("lockstep_model", class, format!("step {} ({}): {}", si, name, detail)).k("op", name));
                break;
            }
            for m in &w.mm {
                h.u(m.r as u64);
                h.u(m.c as u64);
            }
            prev = name;
        }
        let (filled, scrib) = alloc_seam::take_counts();
        st.add("fault.fill_alloc", filled);
        st.add("fault.scribble_free", scrib);
        for m in &w.mm {
            h.fs(&m.d);
        }
        h.u(verdict.is_some() as u64);
        st.log = h.0;
        st.distinct.push(dh.0);
        st.nontrivial = case.ops.len() >= 2;
        verdict
    }

    fn shrink(case: &Case) -> Vec<Case> {
        let mut out = vec![];
        let n = case.ops.len();
        let mut sz = n / 2;
        while sz >= 1 {
            let mut i = 0;
            while i + sz <= n {
                let mut c = case.clone();
                c.ops.drain(i..i + sz);
                if !c.ops.is_empty() {
                    out.push(c);
                }
                i += sz;
            }
            if sz == 1 {
                break;
            }
            sz /= 2;
        }
        if case.fill != Fill::Canary || case.scribble {
            let mut c = case.clone();
            c.fill = Fill::Canary;
            c.scribble = false;
            out.push(c);
        }
        // simpler values: small integers in New data
        for (i, op) in case.ops.iter().enumerate() {
            if let Op::New { data, r, c } = op {
                let simple: Vec<Fb> = (0..data.len()).map(|k| Fb((k + 1) as f64)).collect();
                if &simple != data {
                    let mut cc = case.clone();
                    cc.ops[i] = Op::New { data: simple, r: *r, c: *c };
                    out.push(cc);
                }
            }
            if let Op::NewVec { data } = op {
                let simple: Vec<Fb> = (0..data.len()).map(|k| Fb((k + 2) as f64)).collect();
                if &simple != data {
                    let mut cc = case.clone();
                    cc.ops[i] = Op::NewVec { data: simple };
                    out.push(cc);
                }
            }
            match op {
                Op::ApplyRow { m, i: ii, f, panic_at: Some(_) } => {
                    let mut cc = case.clone();
                    cc.ops[i] = Op::ApplyRow { m: *m, i: *ii, f: *f, panic_at: None };
                    out.push(cc);
                }
                Op::ApplyCol { m, j, f, panic_at: Some(_) } => {
                    let mut cc = case.clone();
                    cc.ops[i] = Op::ApplyCol { m: *m, j: *j, f: *f, panic_at: None };
                    out.push(cc);
                }
                _ => {}
            }
        }
        out
    }

    fn rule() -> &'static str {
        "case = program of 1..40 public structural operations / constructors / predicates over a pool of <= 4 matrices and <= 4 vectors (1..8 rows/columns, non-square included), with per-run swarm weights, a fault rate for impossible requests (shapes, indices) and panicking callbacks, and an allocator fill policy; after every step every pooled object is compared bit for bit with a plain row-major model and nrows*ncols == len is asserted. distinct = distinct sequences of (operation kind, outcome: ok / rejected / callback fault / violation); non-trivial = at least 2 operations"
    }
    fn assumptions() -> Vec<String> {
        vec![
            "approximate predicates/comparisons are decided only on unambiguous inputs (exactly equal, or differing by far more than the tolerance; opposite signs with magnitudes >= 1e-3 and tolerances <= 1e-6); triangular predicates on square matrices".into(),
            "arange follows the documented half-open convention [start, stop): ceil((stop-start)/step) points, either count accepted when the ratio is within 1e-9 of an integer; linspace includes both ends, n = 1 gives [start]".into(),
            "with_shape/empty_n contents are documented garbage: the model adopts them, only shape and element count are checked".into(),
            "design() takes its input column-major (as the GLM code passes it) and returns row-major with a leading ones column".into(),
        ]
    }
    fn reach(c: &BTreeMap<String, u64>) -> Value {
        let pick = |p: &str| -> BTreeMap<String, u64> {
            c.iter().filter(|(k, _)| k.starts_with(p)).map(|(k, v)| (k.clone(), *v)).collect()
        };
        json!({
            "operations": pick("op."), "outcomes": pick("outcome."), "fill_policies": pick("fill."),
            "comparisons": pick("cmp."), "distinct_bigrams": c.keys().filter(|k| k.starts_with("bigram.")).count(),
            "skipped_ops_no_target": c.get("skipped").copied().unwrap_or(0),
        })
    }
    fn expected_counters(_tier: Tier) -> Vec<String> {
        let mut v: Vec<String> = ALL_OPS.iter().map(|o| format!("op.{}", o)).collect();
        for k in ["outcome.ok", "outcome.rejected", "fault.reject", "fault.callback_panic", "fault.fill_alloc", "fault.scribble_free", "cmp.opposite_sign", "cmp.scaled", "cmp.same_buffer_other_shape", "cmp.around_zero", "cmp.prefix_vectors", "cmp.opposite_sign_tiny", "cmp.scaled_tiny"] {
            v.push(k.to_string());
        }
        for f in Fill::ALL {
            v.push(format!("fill.{}", f.name()));
        }
        v
    }
    fn components() -> Value {
        json!({
            "real": ["compute::linalg::{Matrix, Vector} structural methods and index impls", "compute::linalg::{transpose,row_to_col_major,col_to_row_major,diag_matrix,toeplitz,vandermonde,design,linspace,arange,is_matrix,is_square,is_symmetric,is_design}", "compute::linalg::{rotation_matrix_cw,rotation_matrix_ccw}"],
            "stub": ["global allocator -> sim-alloc (System + fill policy for fresh bytes, optional scribble on free)"]
        })
    }
}
