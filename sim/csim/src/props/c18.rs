//! C18 — a distribution object is a pure function of its current parameters and the RNG
//! seed: histories of constructor / setter / bulk-update calls (valid and invalid, unwinds
//! caught), compared after every step with a freshly constructed twin; bystander objects
//! sharing the thread-local generator; per-thread generators under a baton scheduler.

use super::c19::{Forced, Seeding};
use super::{Prop, Tier};
use crate::harness::*;
use crate::prng::{mix3, str_id, Sm};
use compute::distributions::*;
use serde::{Deserialize, Serialize};
use serde_json::{json, Value};
use std::collections::BTreeMap;

pub struct C18;

pub const LAWS: [&str; 13] = [
    "Normal", "Gamma", "Beta", "ChiSquared", "T", "Pareto", "Gumbel", "Exponential", "Uniform",
    "DiscreteUniform", "Poisson", "Binomial", "Bernoulli",
];

pub fn param_names(law: &str) -> &'static [&'static str] {
    match law {
        "Normal" => &["mu", "sigma"],
        "Gamma" => &["alpha", "beta"],
        "Beta" => &["alpha", "beta"],
        "ChiSquared" => &["dof"],
        "T" => &["dof"],
        "Pareto" => &["alpha", "minval"],
        "Gumbel" => &["mu", "beta"],
        "Exponential" => &["lambda"],
        "Uniform" => &["lower", "upper"],
        "DiscreteUniform" => &["lower", "upper"],
        "Poisson" => &["lambda"],
        "Binomial" => &["n", "p"],
        "Bernoulli" => &["p"],
        _ => &[],
    }
}

/// Documented constructor domain, applied identically to constructor, setter and bulk update.
pub fn valid(law: &str, p: &[f64]) -> bool {
    if p.iter().any(|x| !x.is_finite()) {
        return false;
    }
    match law {
        "Normal" => p[1] >= 0.0,
        "Gamma" | "Beta" => p[0] > 0.0 && p[1] > 0.0,
        "ChiSquared" => p[0] >= 1.0,
        "T" => p[0] > 0.0,
        "Pareto" => p[0] > 0.0 && p[1] > 0.0,
        "Gumbel" => p[1] > 0.0,
        "Exponential" | "Poisson" => p[0] > 0.0,
        "Uniform" | "DiscreteUniform" => p[0] <= p[1],
        "Binomial" => p[0] >= 0.0 && (0.0..=1.0).contains(&p[1]),
        "Bernoulli" => (0.0..=1.0).contains(&p[0]),
        _ => false,
    }
}

/// Validity as the check uses it at run time: the documented domain for finite vectors; for
/// vectors containing NaN or +-inf (on which the documented domains are silent) the verdict of
/// the constructor itself, so that constructor, setters and bulk update must at least agree.
pub fn is_valid(law: &str, p: &[f64]) -> bool {
    if p.iter().all(|x| x.is_finite()) {
        valid(law, p)
    } else {
        catch(|| Obj::new(law, p)).is_ok()
    }
}

#[derive(Clone, Debug)]
pub enum Obj {
    Normal(Normal),
    Gamma(Gamma),
    Beta(Beta),
    ChiSquared(ChiSquared),
    T(T),
    Pareto(Pareto),
    Gumbel(Gumbel),
    Exponential(Exponential),
    Uniform(Uniform),
    DiscreteUniform(DiscreteUniform),
    Poisson(Poisson),
    Binomial(Binomial),
    Bernoulli(Bernoulli),
}

macro_rules! all_variants {
    ($self:expr, $d:ident => $e:expr) => {
        match $self {
            Obj::Normal($d) => $e,
            Obj::Gamma($d) => $e,
            Obj::Beta($d) => $e,
            Obj::ChiSquared($d) => $e,
            Obj::T($d) => $e,
            Obj::Pareto($d) => $e,
            Obj::Gumbel($d) => $e,
            Obj::Exponential($d) => $e,
            Obj::Uniform($d) => $e,
            Obj::DiscreteUniform($d) => $e,
            Obj::Poisson($d) => $e,
            Obj::Binomial($d) => $e,
            Obj::Bernoulli($d) => $e,
        }
    };
}

impl Obj {
    /// may unwind (rejection)
    pub fn new(law: &str, p: &[f64]) -> Obj {
        match law {
            "Normal" => Obj::Normal(Normal::new(p[0], p[1])),
            "Gamma" => Obj::Gamma(Gamma::new(p[0], p[1])),
            "Beta" => Obj::Beta(Beta::new(p[0], p[1])),
            "ChiSquared" => Obj::ChiSquared(ChiSquared::new(p[0] as usize)),
            "T" => Obj::T(T::new(p[0])),
            "Pareto" => Obj::Pareto(Pareto::new(p[0], p[1])),
            "Gumbel" => Obj::Gumbel(Gumbel::new(p[0], p[1])),
            "Exponential" => Obj::Exponential(Exponential::new(p[0])),
            "Uniform" => Obj::Uniform(Uniform::new(p[0], p[1])),
            "DiscreteUniform" => Obj::DiscreteUniform(DiscreteUniform::new(p[0] as i64, p[1] as i64)),
            "Poisson" => Obj::Poisson(Poisson::new(p[0])),
            "Binomial" => Obj::Binomial(Binomial::new(p[0] as u64, p[1])),
            "Bernoulli" => Obj::Bernoulli(Bernoulli::new(p[0])),
            _ => panic!("csim: unknown law {}", law),
        }
    }
    /// may unwind (rejection)
    pub fn set(&mut self, which: usize, v: f64) {
        match (self, which) {
            (Obj::Normal(d), 0) => { d.set_mu(v); }
            (Obj::Normal(d), _) => { d.set_sigma(v); }
            (Obj::Gamma(d), 0) => { d.set_alpha(v); }
            (Obj::Gamma(d), _) => { d.set_beta(v); }
            (Obj::Beta(d), 0) => { d.set_alpha(v); }
            (Obj::Beta(d), _) => { d.set_beta(v); }
            (Obj::ChiSquared(d), _) => { d.set_dof(v as usize); }
            (Obj::T(d), _) => { d.set_dof(v); }
            (Obj::Pareto(d), 0) => { d.set_alpha(v); }
            (Obj::Pareto(d), _) => { d.set_minval(v); }
            (Obj::Gumbel(d), 0) => { d.set_mu(v); }
            (Obj::Gumbel(d), _) => { d.set_beta(v); }
            (Obj::Exponential(d), _) => { d.set_lambda(v); }
            (Obj::Uniform(d), 0) => { d.set_lower(v); }
            (Obj::Uniform(d), _) => { d.set_upper(v); }
            (Obj::DiscreteUniform(d), 0) => { d.set_lower(v as i64); }
            (Obj::DiscreteUniform(d), _) => { d.set_upper(v as i64); }
            (Obj::Poisson(d), _) => { d.set_lambda(v); }
            (Obj::Binomial(d), 0) => { d.set_n(v as u64); }
            (Obj::Binomial(d), _) => { d.set_p(v); }
            (Obj::Bernoulli(d), _) => { d.set_p(v); }
        }
    }
    /// may unwind (rejection)
    pub fn update(&mut self, p: &[f64]) {
        all_variants!(self, d => d.update(p))
    }
    pub fn sample(&self) -> f64 {
        all_variants!(self, d => d.sample())
    }
    pub fn mean(&self) -> f64 {
        all_variants!(self, d => d.mean())
    }
    pub fn var(&self) -> f64 {
        all_variants!(self, d => d.var())
    }
    pub fn density(&self, x: f64) -> f64 {
        match self {
            Obj::Normal(d) => d.pdf(x),
            Obj::Gamma(d) => d.pdf(x),
            Obj::Beta(d) => d.pdf(x),
            Obj::ChiSquared(d) => d.pdf(x),
            Obj::T(d) => d.pdf(x),
            Obj::Pareto(d) => d.pdf(x),
            Obj::Gumbel(d) => d.pdf(x),
            Obj::Exponential(d) => d.pdf(x),
            Obj::Uniform(d) => d.pdf(x),
            Obj::DiscreteUniform(d) => d.pmf(x as i64),
            Obj::Poisson(d) => d.pmf(x as i64),
            Obj::Binomial(d) => d.pmf(x as i64),
            Obj::Bernoulli(d) => d.pmf(x as i64),
        }
    }
    pub fn sample_n(&self, n: usize) -> Vec<f64> {
        all_variants!(self, d => d.sample_n(n).v)
    }
    /// further closed-form observables: ln_pdf of the continuous laws
    pub fn extra(&self, x: f64) -> Vec<f64> {
        match self {
            // Normal::cdf (the one inherent observable in the crate) is compared too, but only where
            // its erf argument cannot be NaN on a correct object: erf(NaN) recurses without end, so
            // cdf of a sigma = 0 normal at x = mu aborts the process. The guard reads the object's
            // own mean and variance (finite centre, 0 < variance < inf, finite x != centre).
            Obj::Normal(d) => {
                let (m, s2) = (d.mean(), d.var());
                if m.is_finite() && s2 > 0.0 && s2.is_finite() && x.is_finite() && x != m {
                    vec![d.ln_pdf(x), d.cdf(x)]
                } else {
                    vec![d.ln_pdf(x)]
                }
            }
            Obj::Gamma(d) => vec![d.ln_pdf(x)],
            Obj::Beta(d) => vec![d.ln_pdf(x)],
            Obj::ChiSquared(d) => vec![d.ln_pdf(x)],
            Obj::T(d) => vec![d.ln_pdf(x)],
            Obj::Pareto(d) => vec![d.ln_pdf(x)],
            Obj::Gumbel(d) => vec![d.ln_pdf(x)],
            Obj::Exponential(d) => vec![d.ln_pdf(x)],
            Obj::Uniform(d) => vec![d.ln_pdf(x)],
            _ => vec![],
        }
    }
    /// `Default::default()` of the law (a constructor like any other)
    pub fn default_of(law: &str) -> Obj {
        match law {
            "Normal" => Obj::Normal(Normal::default()),
            "Gamma" => Obj::Gamma(Gamma::default()),
            "Beta" => Obj::Beta(Beta::default()),
            "ChiSquared" => Obj::ChiSquared(ChiSquared::default()),
            "T" => Obj::T(T::default()),
            "Pareto" => Obj::Pareto(Pareto::default()),
            "Gumbel" => Obj::Gumbel(Gumbel::default()),
            "Exponential" => Obj::Exponential(Exponential::default()),
            "Uniform" => Obj::Uniform(Uniform::default()),
            "DiscreteUniform" => Obj::DiscreteUniform(DiscreteUniform::default()),
            "Poisson" => Obj::Poisson(Poisson::default()),
            "Binomial" => Obj::Binomial(Binomial::default()),
            "Bernoulli" => Obj::Bernoulli(Bernoulli::default()),
            _ => panic!("csim: unknown law {}", law),
        }
    }
}

/// what the integer-typed parameters become when a float is passed through update()/the harness
/// cast (`as usize` / `as u64` / `as i64`: truncation toward zero, saturating, NaN -> 0)
pub fn canon(law: &str, p: &[f64]) -> Vec<f64> {
    let mut q = p.to_vec();
    for (i, v) in q.iter_mut().enumerate() {
        match (law, i) {
            ("ChiSquared", 0) => *v = (*v as usize) as f64,
            ("Binomial", 0) => *v = (*v as u64) as f64,
            ("DiscreteUniform", _) => *v = (*v as i64) as f64,
            _ => {}
        }
    }
    q
}

/// probe points for pdf/pmf, a function of the model's current parameters only
fn probe_grid(law: &str, p: &[f64]) -> Vec<f64> {
    match law {
        "DiscreteUniform" => vec![p[0] - 1.0, p[0], ((p[0] + p[1]) / 2.0).floor(), p[1], p[1] + 1.0, 0.0],
        "Poisson" => vec![0.0, 1.0, 2.0, 5.0, p[0].floor(), p[0].floor() + 3.0],
        "Binomial" => {
            let n = p[0];
            let mut g = vec![0.0, (n / 2.0).floor(), n, (n * p[1]).floor()];
            if n >= 1.0 {
                g.push(1.0);
            }
            g
        }
        "Bernoulli" => vec![-1.0, 0.0, 1.0, 2.0],
        "Uniform" => vec![p[0] - 1.0, p[0], (p[0] + p[1]) / 2.0, p[1], p[1] + 1.0],
        "Pareto" => vec![p[1] * 0.5, p[1], p[1] * 1.5, p[1] * 4.0, 1.0],
        "Normal" | "Gumbel" => vec![p[0] - 2.0 * p[1], p[0], p[0] + 0.7 * p[1], p[0] + 3.0, 0.0],
        "Beta" => vec![-0.1, 0.0, 0.1, 0.5, 0.9, 1.0, 1.1],
        _ => vec![-1.0, 0.0, 0.1, 0.5, 1.0, 2.5, 7.0, 30.0],
    }
}

#[derive(Clone, Debug, PartialEq)]
struct Obs {
    dens: Vec<Result<u64, ()>>,
    mean: Result<u64, ()>,
    var: Result<u64, ()>,
}

fn observe(o: &Obj, law: &str, model: &[f64]) -> Obs {
    let grid = probe_grid(law, model);
    let mut dens: Vec<Result<u64, ()>> = grid.iter().map(|x| catch(|| o.density(*x).to_bits()).map_err(|_| ())).collect();
    for x in &grid {
        match catch(|| o.extra(*x)) {
            Ok(v) => dens.extend(v.iter().map(|y| Ok(y.to_bits()))),
            Err(_) => dens.push(Err(())),
        }
    }
    Obs {
        dens,
        mean: catch(|| o.mean().to_bits()).map_err(|_| ()),
        var: catch(|| o.var().to_bits()).map_err(|_| ()),
    }
}

#[derive(Clone, Debug, PartialEq)]
struct Stream {
    vals: Vec<u64>,
    /// "" = completed; otherwise nontermination / panic
    end: String,
    draws: u64,
}

pub const SAMPLE_BUDGET: u64 = 20_000;

fn stream(o: &Obj, seed: u64, k: usize) -> Stream {
    alea::set_seed(seed);
    let d0 = alea::sim::draws();
    let mut vals = Vec::with_capacity(k);
    let mut end = String::new();
    for _ in 0..k {
        alea::sim::set_budget(SAMPLE_BUDGET);
        match catch(|| o.sample()) {
            Ok(x) => vals.push(x.to_bits()),
            Err(m) => {
                end = if is_budget_panic(&m) { "nontermination".into() } else { "panic".into() };
                break;
            }
        }
    }
    alea::sim::clear_budget();
    Stream { vals, end, draws: alea::sim::draws() - d0 }
}

#[derive(Clone, Debug, Serialize, Deserialize, PartialEq)]
pub enum ByOp {
    New(String, Vec<Fb>),
    Set(usize, usize, Fb),
    Update(usize, Vec<Fb>),
    Clone(usize),
    Drop(usize),
    Density(usize, Fb),
    /// k short-lived objects of the given law are constructed and dropped ("how many other distribution
    /// objects exist": counters, stamps and tables that grow with every construction)
    Flood(String, usize),
}

#[derive(Clone, Debug, Serialize, Deserialize, PartialEq)]
pub enum Step {
    New(Vec<Fb>),
    Set(usize, Fb),
    Update(Vec<Fb>),
    CloneSelf,
    /// seeded stream comparison with other clients of the generator active in between
    Compare { seed: Hx, k: usize, bystanders: Vec<ByOp> },
}

#[derive(Clone, Debug, Serialize, Deserialize)]
pub struct Case {
    pub law: String,
    pub init: Vec<Fb>,
    pub steps: Vec<Step>,
    pub seeding: Seeding,
    /// forced generator outputs during the per-step stream comparison (same for subject and twin)
    pub script: Vec<Forced>,
    /// K > 0: thread scenario with K real threads under the baton; schedule = who runs next
    pub threads: usize,
    pub schedule: Vec<u8>,
    /// allocator fill policy of the run's thread (0 = pass .. 4 = junk, index into Fill::ALL): what
    /// fresh heap memory contains while the history executes; helper threads spawned for the
    /// fresh-thread comparisons keep the default (pass)
    #[serde(default)]
    pub fill: u8,
}

// ---- generation ------------------------------------------------------------------------------

fn grid_for(law: &str, which: usize) -> &'static [f64] {
    match (law, which) {
        ("Normal", 0) | ("Gumbel", 0) => &[-1000.0, -3.5, 0.0, 0.25, 10.0, 1000.0],
        ("Normal", 1) => &[0.0, 1e-3, 0.5, 1.0, 20.0, 1000.0],
        ("Gamma", 0) | ("Beta", _) => &[0.05, 0.2, 1.0 / 3.0, 0.5, 0.9, 1.0, 1.5, 2.0, 7.3, 40.0],
        ("Gamma", 1) => &[1e-3, 0.5, 1.0, 4.0, 1e3],
        ("ChiSquared", _) => &[1.0, 2.0, 3.0, 5.0, 50.0, 200.0, 4294967302.0, 1e12],
        ("T", _) => &[0.5, 1.0, 1.5, 2.0, 3.0, 30.0, 200.0],
        ("Pareto", _) => &[0.5, 1.0, 2.0, 3.5, 1e-3, 1e3],
        ("Gumbel", 1) => &[1e-3, 0.5, 1.0, 7.0, 1e3],
        ("Exponential", _) => &[1e-3, 0.5, 1.0, 4.0, 1e3],
        ("Poisson", _) => &[1e-3, 0.5, 5.0, 9.99, 10.0, 42.0, 149.0, 150.0, 400.0],
        ("Binomial", 0) => &[0.0, 1.0, 15.0, 60.0, 70.0, 100.0, 120.0, 240.0, 1000.0, 1001.0],
        ("DiscreteUniform", _) => &[-7.0, -2.0, 0.0, 1.0, 3.0, 6.0, 100.0, -4e18, 4e18, 4294967296.0, -4294967296.0, 9e15],
        ("Binomial", 1) | ("Bernoulli", _) => &[0.0, 1e-3, 0.125, 0.25, 0.3, 0.5, 0.7, 0.75, 0.999, 1.0],
        _ => &[-7.0, -2.0, 0.0, 1.0, 3.0, 6.0, 100.0],
    }
}

fn is_int_param(law: &str, which: usize) -> bool {
    matches!((law, which), ("ChiSquared", _) | ("DiscreteUniform", _) | ("Binomial", 0))
}

/// A value for parameter `which`, valid or not, positioned relative to the current vector.
fn gen_value(r: &mut Sm, law: &str, which: usize, cur: &[f64], want_valid: bool) -> f64 {
    let intp = is_int_param(law, which);
    for _ in 0..40 {
        let c = cur[which];
        let v = match r.below(8) {
            0..=2 => *r.pick(grid_for(law, which)),
            3 if law == "Binomial" && r.chance(0.4) => {
                // the inversion / BTPE switch sits at n * min(p, 1-p) = 30: land on it and next to it
                if which == 1 {
                    let q = 30.0 / cur[0].max(1.0);
                    *r.pick(&[q, f64::from_bits(q.to_bits() + 1), f64::from_bits(q.to_bits().saturating_sub(1)), 1.0 - q])
                } else {
                    let pp = cur[1].min(1.0 - cur[1]).max(1e-3);
                    let m = (30.0 / pp).round();
                    *r.pick(&[m, m + 1.0, m - 1.0])
                }
            }
            3 => {
                // (adjacent doubles of the current value, except around zero: subnormal parameters are not generated)
                let adj = |d: i64| if c.abs() >= 1e-300 && c.is_finite() { f64::from_bits((c.to_bits() as i64 + d) as u64) } else { c + 1.0 };
                *r.pick(&[c * 0.5, c + 1.0, c - 1.0, 1.0 - c, adj(1), adj(-1)])
            }
            4 => c * 2.0 + 1.0,
            5 => c - 3.0,
            6 => match law {
                // bounds: go entirely beyond the other end
                "Uniform" | "DiscreteUniform" => {
                    if which == 0 { cur[1] + 1.0 + r.below(5) as f64 } else { cur[0] - 1.0 - r.below(5) as f64 }
                }
                _ => -c,
            },
            _ => *r.pick(&[0.0, -0.0, -1.0, -0.5, 1.0 + 1e-9, 1.0 + f64::EPSILON, 1.0 - f64::EPSILON / 2.0, 1.1, 2.0, -1e-9, -5e-324, f64::MIN_POSITIVE]),
        };
        let v = if intp { v.round() } else { v };
        if law == "Binomial" && which == 0 && v < 0.0 {
            continue; // u64 parameter: negatives are not expressible
        }
        if law == "ChiSquared" && v < 0.0 {
            continue; // usize parameter
        }
        let mut cand = cur.to_vec();
        cand[which] = v;
        if valid(law, &cand) == want_valid {
            return v;
        }
    }
    cur[which]
}

fn gen_vector(r: &mut Sm, law: &str, cur: &[f64], mode: u64) -> Vec<f64> {
    // mode 0: jointly valid; 1: first valid-looking, second bad; 2: first bad; 3: anything
    let np = cur.len();
    for _ in 0..60 {
        let mut v = cur.to_vec();
        if (law == "Uniform" || law == "DiscreteUniform") && r.chance(0.6) {
            // intervals entirely above / below / overlapping / degenerate / inverted
            let w = r.below(6) as f64;
            let (lo, hi) = match r.below(5) {
                0 => (cur[1] + 1.0 + w, cur[1] + 2.0 + 2.0 * w),
                1 => (cur[0] - 3.0 - 2.0 * w, cur[0] - 1.0 - w),
                2 => (cur[0] + 0.5_f64.floor(), cur[1] + w),
                3 => (cur[0] + w, cur[0] + w),
                _ => (cur[1] + 2.0 + w, cur[0] - 1.0),
            };
            v = vec![lo, hi];
        } else {
            for i in 0..np {
                let want = match mode {
                    0 => true,
                    1 => i == 0,
                    2 => i != 0,
                    _ => r.chance(0.5),
                };
                v[i] = gen_value(r, law, i, &v.clone(), want);
            }
        }
        let ok = valid(law, &v);
        if (mode == 0 && ok) || (mode != 0 && mode != 3 && !ok) || mode == 3 {
            return v;
        }
    }
    cur.to_vec()
}

fn gen_bystanders(r: &mut Sm) -> Vec<ByOp> {
    let mut ops = vec![];
    let mut live = 0usize;
    let n = r.below(6);
    for _ in 0..n {
        let choice = if live == 0 { 0 } else { r.below(6) };
        match choice {
            0 => {
                let law = *r.pick(&LAWS);
                let np = param_names(law).len();
                let mut p = vec![1.0; np];
                if law == "Uniform" || law == "DiscreteUniform" {
                    p = vec![0.0, 5.0];
                }
                if law == "Binomial" {
                    p = vec![10.0, 0.5];
                }
                if law == "Bernoulli" {
                    p = vec![0.5];
                }
                let p = if r.chance(0.7) { gen_vector(r, law, &p, 0) } else { p };
                ops.push(ByOp::New(law.to_string(), fbs(&p)));
                live += 1;
            }
            1 => ops.push(ByOp::Set(r.below(live as u64) as usize, r.below(2) as usize, Fb(*r.pick(&[0.5, 1.0, 2.0, 3.0, -1.0, 0.0])))),
            2 => ops.push(ByOp::Update(r.below(live as u64) as usize, fbs(&[*r.pick(&[0.5, 1.0, 2.0]), *r.pick(&[0.25, 1.0, 3.0])]))),
            3 => {
                ops.push(ByOp::Clone(r.below(live as u64) as usize));
                live += 1;
            }
            4 => {
                ops.push(ByOp::Drop(r.below(live as u64) as usize));
                live -= 1;
            }
            _ => ops.push(ByOp::Density(r.below(live as u64) as usize, Fb(*r.pick(&[0.0, 0.5, 1.0, 3.0])))),
        }
    }
    ops
}

pub fn default_params_pub(law: &str) -> Vec<f64> {
    default_params(law)
}

fn default_params(law: &str) -> Vec<f64> {
    match law {
        "Uniform" | "DiscreteUniform" => vec![0.0, 1.0],
        "Binomial" => vec![1.0, 0.5],
        "Bernoulli" => vec![0.5],
        "Normal" | "Gumbel" => vec![0.0, 1.0],
        l => vec![1.0; param_names(l).len()],
    }
}

impl Prop for C18 {
    const ID: &'static str = "C18";
    type Case = Case;

    fn runs(tier: Tier) -> u64 {
        match tier {
            Tier::Quick => 91_000,
            Tier::Thorough => 6_500_000,
        }
    }
    fn chunk(tier: Tier) -> u64 {
        match tier {
            Tier::Quick => 2_600,
            Tier::Thorough => 26_000,
        }
    }

    fn gen(seed: u64, run: u64, tier: Tier) -> Case {
        let mut r = Sm::new(mix3(seed, str_id("C18"), run));
        // 13 laws round-robin so that every law gets the same number of histories
        let law = LAWS[(run % 13) as usize];
        let np = param_names(law).len();
        // swarm: per-run mix of step kinds
        let w_set = 1 + r.below(4);
        let w_upd = r.below(4);
        let w_new = r.below(2);
        let w_clone = r.below(2);
        let w_cmp = r.below(3);
        let p_invalid = *r.pick(&[0.0, 0.15, 0.3, 0.5]);
        let total = w_set + w_upd + w_new + w_clone + w_cmp;
        let from_default = r.chance(0.08);
        let init = if from_default || r.chance(0.3) { default_params(law) } else { gen_vector(&mut r, law, &default_params(law), 0) };
        let mut cur = init.clone();
        let nsteps = 1 + r.below(20) as usize;
        let mut steps = vec![];
        for _ in 0..nsteps {
            let mut t = r.below(total);
            let invalid = r.chance(p_invalid);
            if t < w_set {
                let which = r.below(np as u64) as usize;
                let v = if !is_int_param(law, which) && r.chance(0.03) {
                    // validity unknown to the model: the constructor decides at run time
                    *r.pick(&[f64::NAN, f64::INFINITY, f64::NEG_INFINITY])
                } else {
                    gen_value(&mut r, law, which, &cur, !invalid)
                };
                let mut cand = cur.clone();
                cand[which] = v;
                if valid(law, &cand) {
                    cur = cand;
                }
                steps.push(Step::Set(which, Fb(v)));
                if invalid && r.chance(0.3) {
                    // the same rejected request again: it must be rejected again
                    steps.push(Step::Set(which, Fb(v)));
                }
                continue;
            }
            t -= w_set;
            if t < w_upd {
                let mode = if !invalid { 0 } else { 1 + r.below(3) };
                let mut v = gen_vector(&mut r, law, &cur, mode);
                if r.chance(0.03) {
                    let w = r.below(np as u64) as usize;
                    if !is_int_param(law, w) {
                        v[w] = *r.pick(&[f64::NAN, f64::INFINITY, f64::NEG_INFINITY]);
                    }
                }
                if r.chance(0.15) {
                    // a non-integral float for an integer-typed parameter: update() truncates it
                    for w in 0..np {
                        if is_int_param(law, w) {
                            v[w] += *r.pick(&[0.5, 0.25, 0.999]);
                        }
                    }
                }
                let v = v;
                if valid(law, &canon(law, &v)) {
                    cur = canon(law, &v);
                }
                steps.push(Step::Update(fbs(&v)));
                if invalid && r.chance(0.3) {
                    steps.push(Step::Update(fbs(&v)));
                }
                continue;
            }
            t -= w_upd;
            if t < w_new {
                let v = gen_vector(&mut r, law, &cur, if invalid { 3 } else { 0 });
                if valid(law, &v) {
                    cur = v.clone();
                }
                steps.push(Step::New(fbs(&v)));
                continue;
            }
            t -= w_new;
            if t < w_clone {
                steps.push(Step::CloneSelf);
                continue;
            }
            let mut bys = gen_bystanders(&mut r);
            if r.chance(0.03) {
                // many other objects of the subject's own law come and go, then one of them (with other
                // parameters) is built and queried right before the subject is looked at again
                let k = if r.chance(0.8) { 65_530 + r.below(7) as usize } else { *r.pick(&[250usize, 253, 254, 255, 256, 1000]) };
                let other = gen_vector(&mut r, law, &default_params(law), 0);
                bys = vec![ByOp::Flood(law.to_string(), k), ByOp::New(law.to_string(), fbs(&other)), ByOp::Density(0, Fb(0.5)), ByOp::Density(0, Fb(1.0))];
            }
            steps.push(Step::Compare { seed: Hx(r.next()), k: 8 + r.below(57) as usize, bystanders: bys });
        }
        let seeding = Seeding::gen(&mut r);
        let mut script = vec![];
        if r.chance(0.15) {
            let kind = *r.pick(&["rng_zero", "rng_max", "rng_tiny", "rng_half", "rng_tail", "rng_zig_edge"]);
            script.push(Forced { at: r.below(6), raw: Hx(super::c19::fault_raw(kind, &mut r)), kind: kind.into() });
        }
        // thread scenario: thorough tier, one run in 16
        let (threads, schedule) = if (tier == Tier::Thorough && run % 16 == 5) || run % 128 == 37 {
            let k = 2 + r.below(2) as usize;
            let len = 12 + r.below(30) as usize;
            (k, (0..len).map(|_| r.below(k as u64) as u8).collect())
        } else {
            (0, vec![])
        };
        let fill = if r.chance(0.5) { 0 } else { 1 + r.below(4) as u8 };
        Case { law: law.to_string(), init: if from_default { vec![] } else { fbs(&init) }, steps, seeding, script, threads, schedule, fill }
    }

    fn exec(case: &Case, st: &mut Stats) -> Option<Viol> {
        if case.threads > 0 {
            return exec_threads(case, st);
        }
        exec_history(case, st)
    }

    fn shrink(case: &Case) -> Vec<Case> {
        let mut out = vec![];
        let n = case.steps.len();
        if case.threads > 0 {
            if case.schedule.len() > 2 {
                let mut c = case.clone();
                c.schedule.truncate(case.schedule.len() / 2);
                out.push(c);
                let mut c = case.clone();
                c.schedule.pop();
                out.push(c);
            }
            if case.threads > 2 {
                let mut c = case.clone();
                c.threads = 2;
                c.schedule = c.schedule.iter().map(|x| x % 2).collect();
                out.push(c);
            }
        }
        // drop chunks of steps, then single steps
        let mut sz = n / 2;
        while sz >= 1 {
            let mut i = 0;
            while i + sz <= n {
                let mut c = case.clone();
                c.steps.drain(i..i + sz);
                out.push(c);
                i += sz;
            }
            if sz == 1 {
                break;
            }
            sz /= 2;
        }
        if !case.script.is_empty() {
            let mut c = case.clone();
            c.script.clear();
            out.push(c);
        }
        if case.fill != 0 {
            let mut c = case.clone();
            c.fill = 0;
            out.push(c);
        }
        // simplify compare steps
        for (i, s) in case.steps.iter().enumerate() {
            if let Step::Compare { seed, k, bystanders } = s {
                if !bystanders.is_empty() {
                    let mut c = case.clone();
                    c.steps[i] = Step::Compare { seed: *seed, k: *k, bystanders: vec![] };
                    out.push(c);
                    for j in 0..bystanders.len() {
                        let mut b = bystanders.clone();
                        b.remove(j);
                        let mut c = case.clone();
                        c.steps[i] = Step::Compare { seed: *seed, k: *k, bystanders: b };
                        out.push(c);
                    }
                }
                if *k > 4 {
                    let mut c = case.clone();
                    c.steps[i] = Step::Compare { seed: *seed, k: 4, bystanders: bystanders.clone() };
                    out.push(c);
                }
                if seed.0 != 1 {
                    let mut c = case.clone();
                    c.steps[i] = Step::Compare { seed: Hx(1), k: *k, bystanders: bystanders.clone() };
                    out.push(c);
                }
            }
        }
        // simpler initial parameters
        let dp = fbs(&default_params(&case.law));
        if case.init != dp {
            let mut c = case.clone();
            c.init = dp;
            out.push(c);
        }
        if case.seeding != Seeding::simplest() {
            let mut c = case.clone();
            c.seeding = Seeding::simplest();
            out.push(c);
        }
        out
    }

    fn rule() -> &'static str {
        "case = history of 1..20 steps (constructor, each setter, bulk update — valid and invalid values positioned relative to the current parameters —, clone, seeded stream comparison with bystander objects created/mutated/dropped in between) on one of the 13 univariate laws (round-robin), plus a seeding mode and optionally a forced generator output; after every step the subject is compared with a freshly constructed twin (pdf/pmf on a probe grid, mean, var, seeded sample stream, draw count). thorough adds K-thread scenarios under a baton scheduler. distinct = distinct abstract histories: law + sequence of (step kind, parameter index, validity, position of the new value relative to the old: below/equal/above, regime boundary crossed); non-trivial = at least one mutation step"
    }
    fn assumptions() -> Vec<String> {
        vec![
            "validity of a parameter vector is the documented constructor domain, applied identically to constructor, setters and bulk update; NaN/inf parameters are not generated".into(),
            "objects expose no getters: equality with the twin is observational (density/mass on a probe grid, mean, variance, seeded stream of 8..64 draws, draw count), bit for bit".into(),
            "after a rejected bulk update the object may hold any jointly valid mixture of old and new components (narrow relaxation), never anything else".into(),
            "sim-alea reproduces alea 0.2.2 bit for bit when its seam is inert".into(),
        ]
    }
    fn reach(c: &BTreeMap<String, u64>) -> Value {
        let pick = |p: &str| -> BTreeMap<String, u64> {
            c.iter().filter(|(k, _)| k.starts_with(p)).map(|(k, v)| (k.clone(), *v)).collect()
        };
        json!({
            "steps": pick("step."), "laws": pick("law."), "outcomes": pick("outcome."),
            "bystander_ops": pick("by."), "threads": pick("thread."), "resync": pick("resync."), "compare": pick("compare."),
        })
    }
    fn expected_counters(tier: Tier) -> Vec<String> {
        let mut v: Vec<String> = [
            "step.nonfinite", "step.default_ctor", "step.set.valid", "step.set.invalid", "step.update.valid", "step.update.invalid",
            "step.new.valid", "step.new.invalid", "step.clone", "step.compare", "outcome.rejected",
            "outcome.accepted", "by.New", "by.Set", "by.Update", "by.Clone", "by.Drop", "by.Density", "by.Flood",
            "fault.reject", "fault.partial", "resync.after_partial", "compare.fresh_thread", "compare.bulk", "compare.successor_same_storage", "config.fill_policy_active",
        ]
        .iter()
        .map(|s| s.to_string())
        .collect();
        for l in LAWS {
            v.push(format!("law.{}", l));
        }
        let _ = tier;
        v.push("thread.scenarios".into());
        v.push("thread.switches".into());
        v
    }
    fn components() -> Value {
        json!({
            "real": ["compute::distributions::{Normal,Gamma,Beta,ChiSquared,T,Pareto,Gumbel,Exponential,Uniform,DiscreteUniform,Poisson,Binomial,Bernoulli} (constructors, setters, update, sample, pdf/pmf, mean, var)", "OS threads (thread scenario), one runnable at a time under the simulator's baton"],
            "stub": ["alea -> sim-alea (per-thread generator state, draw counter, draw budget, forced outputs; clock seeding replaced by simulator-supplied thread_init)"]
        })
    }
}

fn relation(old: f64, new: f64) -> u64 {
    if new < old {
        0
    } else if new == old {
        1
    } else {
        2
    }
}
fn crosses(law: &str, old: f64, new: f64) -> u64 {
    let bounds: &[f64] = match law {
        "Gamma" | "Beta" => &[1.0 / 3.0, 1.0],
        "ChiSquared" | "T" => &[2.0],
        "Poisson" => &[10.0, 150.0],
        "Binomial" | "Bernoulli" => &[0.5],
        _ => &[],
    };
    bounds.iter().any(|b| (old < *b) != (new < *b)) as u64
}

fn compare_full(subject: &Obj, law: &str, params: &[f64], seed: u64, k: usize, script: &[(u64, u64)], prev: Option<&[f64]>, st: &mut Stats) -> Result<(), (String, String)> {
    // twin is built BEFORE seeding; its construction must not draw
    let d0 = alea::sim::draws();
    let twin = match catch(|| Obj::new(law, params)) {
        Ok(t) => t,
        Err(m) => return Err(("twin_ctor_rejected_valid".into(), format!("constructor rejected the model's valid parameters {:?}: {}", params, m))),
    };
    if alea::sim::draws() != d0 {
        return Err(("ctor_draws".into(), format!("constructing {}({:?}) consumed {} RNG draw(s)", law, params, alea::sim::draws() - d0)));
    }
    let so = observe(subject, law, params);
    let to = observe(&twin, law, params);
    if so.dens != to.dens {
        let i = so.dens.iter().zip(&to.dens).position(|(a, b)| a != b).unwrap_or(0);
        let g = probe_grid(law, params);
        let x = g[if i < g.len() { i } else { ((i - g.len()) / (so.dens.len() - g.len()).max(1).min(2).max(1)).min(g.len() - 1) }];
        let what = if i < g.len() { "pdf/pmf" } else { "ln_pdf/cdf" };
        let _ = what;
        return Err(("stale_density".into(), format!("pdf/pmf/ln_pdf({}) differs from a fresh {}({:?}): {:?} vs {:?}", x, law, params, so.dens[i].map(f64::from_bits), to.dens[i].map(f64::from_bits))));
    }
    if so.mean != to.mean {
        return Err(("stale_mean".into(), format!("mean differs from a fresh {}({:?}): {:?} vs {:?}", law, params, so.mean.map(f64::from_bits), to.mean.map(f64::from_bits))));
    }
    if so.var != to.var {
        return Err(("stale_var".into(), format!("var differs from a fresh {}({:?}): {:?} vs {:?}", law, params, so.var.map(f64::from_bits), to.var.map(f64::from_bits))));
    }
    if !params.iter().all(|x| x.is_finite()) {
        // samplers need not terminate (or even draw) on NaN / infinite parameters: the closed-form
        // observables above are all that is compared
        return Ok(());
    }
    let base = alea::sim::draws();
    let shifted: Vec<(u64, u64)> = script.iter().map(|(a, r)| (base + a, *r)).collect();
    alea::sim::set_script(&shifted);
    let a = stream(subject, seed, k);
    let base = alea::sim::draws();
    let shifted: Vec<(u64, u64)> = script.iter().map(|(a, r)| (base + a, *r)).collect();
    alea::sim::set_script(&shifted);
    let b = stream(&twin, seed, k);
    alea::sim::clear_script();
    if a != b {
        let pos = a.vals.iter().zip(&b.vals).position(|(x, y)| x != y).unwrap_or(a.vals.len().min(b.vals.len()));
        return Err(("stale_stream".into(), format!(
            "seed {:#x}: sample stream differs from a fresh {}({:?}) at draw {} ({:?} vs {:?}; ends '{}' / '{}'; raw draws {} vs {})",
            seed, law, params, pos, a.vals.get(pos).map(|v| f64::from_bits(*v)), b.vals.get(pos).map(|v| f64::from_bits(*v)), a.end, b.end, a.draws, b.draws)));
    }
    // "does not depend on how many other distribution objects exist": an object constructed in the
    // very storage where a differently parameterised object of the same law lived and sampled a
    // moment ago (no other sampler in between, no setter ever called on it) must produce the same
    // stream as the twin above
    if let Some(pv) = prev {
        if pv.iter().all(|x| x.is_finite()) && slice_bits_eq(pv, params).is_some() && script.is_empty() {
            if let Ok(mut slot) = catch(|| Obj::new(law, pv)) {
                st.inc("compare.successor_same_storage");
                let _ = stream(&slot, seed ^ 0x5bd1, 3);
                match catch(|| Obj::new(law, params)) {
                    Ok(o) => slot = o,
                    Err(_) => return Ok(()),
                }
                let c = stream(&slot, seed, k);
                if c != b {
                    let pos = c.vals.iter().zip(&b.vals).position(|(x, y)| x != y).unwrap_or(c.vals.len().min(b.vals.len()));
                    return Err(("depends_on_other_objects".into(), format!(
                        "seed {:#x}: a fresh {}({:?}) that replaces a just-sampled {}({:?}) in the same storage gives a different stream than a fresh {}({:?}) elsewhere (first difference at draw {}): sampling depends on which other objects existed",
                        seed, law, params, law, pv, law, params, pos)));
                }
            }
        }
    }
    Ok(())
}

fn mixtures(law: &str, old: &[f64], new: &[f64]) -> Vec<Vec<f64>> {
    let np = old.len();
    let mut out: Vec<Vec<f64>> = vec![];
    for mask in 0..(1u32 << np) {
        let cand: Vec<f64> = (0..np).map(|i| if mask & (1 << i) != 0 { new[i] } else { old[i] }).collect();
        if is_valid(law, &cand) && !out.iter().any(|o| slice_bits_eq(o, &cand).is_none()) {
            out.push(cand);
        }
    }
    out
}

fn exec_history(case: &Case, st: &mut Stats) -> Option<Viol> {
    let law = case.law.as_str();
    let names = param_names(law);
    let np = names.len();
    let mut h = H64::new();
    let mut dh = H64::new();
    h.s(law);
    dh.s(law);
    case.seeding.apply();
    if case.fill > 0 {
        crate::alloc_seam::set_policy(crate::alloc_seam::Fill::ALL[(case.fill as usize).min(4)], false, 0x9E37_79B9 ^ case.steps.len() as u64);
        st.inc("config.fill_policy_active");
    }
    st.inc(&format!("law.{}", law));
    let script: Vec<(u64, u64)> = case.script.iter().map(|f| (f.at, f.raw.0)).collect();
    let mut fired_any = 0u64;
    let mut mutations = 0u64;
    let mk = |check: &str, class: &str, op: &str, detail: String| Some(Viol::new(check, class, detail).k("law", law).k("op", op));
    let from_default = case.init.is_empty();
    let init: Vec<f64> = if from_default { default_params(law) } else { unfb(&case.init) };
    if from_default {
        st.inc("step.default_ctor");
    }
    let finish = |st: &mut Stats, h: &mut H64, dh: &H64, v: Option<Viol>, mutations: u64| {
        let draws = alea::sim::draws();
        st.add("rng_draws", draws);
        h.u(draws);
        h.u(v.is_some() as u64);
        st.log = h.0;
        st.distinct.push(dh.0);
        st.nontrivial = mutations > 0;
        alea::sim::clear_script();
        alea::sim::clear_budget();
        v
    };
    if init.len() != np || !is_valid(law, &init) {
        // (only reachable through a hand-edited replay file)
        return finish(st, &mut h, &dh, None, 0);
    }
    let mut subject = match catch(|| if from_default { Obj::default_of(law) } else { Obj::new(law, &init) }) {
        Ok(o) => o,
        Err(m) => {
            let v = mk("valid_accepted", "valid_rejected", "new", format!("{}::new({:?}) panicked: {}", law, init, m));
            return finish(st, &mut h, &dh, v, 0);
        }
    };
    // the model: the set of parameter vectors the object may legitimately hold (a singleton
    // except after a rejected bulk update, where old/new mixtures are admitted until told apart)
    let mut models: Vec<Vec<f64>> = vec![init];
    for (si, step) in case.steps.iter().enumerate() {
        st.inc("ops");
        let prev_model: Vec<f64> = models[0].clone();
        let step_seed = crate::prng::mix64(0xC18 ^ ((si as u64) << 8) ^ models[0].iter().fold(0u64, |a, x| a.rotate_left(7) ^ x.to_bits()));
        let mut rejected = false;
        let opname = match step {
            Step::New(_) => "new".to_string(),
            Step::Update(_) => "update".to_string(),
            Step::Set(w, _) => format!("set:{}", names.get(*w).unwrap_or(&"?")),
            Step::CloneSelf => "clone".to_string(),
            Step::Compare { .. } => "compare".to_string(),
        };
        match step {
            Step::CloneSelf => {
                st.inc("step.clone");
                dh.u(10);
                subject = subject.clone();
            }
            Step::Compare { seed, k, bystanders } => {
                st.inc("step.compare");
                dh.u(11);
                dh.u(bystanders.len() as u64);
                // reference stream without anybody else around
                let a0 = stream(&subject, seed.0, *k);
                // again, with other clients of the generator acting between seeding and sampling
                alea::set_seed(seed.0);
                let mut pool: Vec<Obj> = vec![];
                for b in bystanders {
                    let d0 = alea::sim::draws();
                    let name = match b {
                        ByOp::New(l, p) => {
                            if let Ok(o) = catch(|| Obj::new(l, &unfb(p))) {
                                pool.push(o);
                            }
                            "New"
                        }
                        ByOp::Set(i, w, v) => {
                            if let Some(o) = pool.get_mut(*i) {
                                let _ = catch(|| o.set(*w, v.0));
                            }
                            "Set"
                        }
                        ByOp::Update(i, p) => {
                            if let Some(o) = pool.get_mut(*i) {
                                let _ = catch(|| o.update(&unfb(p)));
                            }
                            "Update"
                        }
                        ByOp::Clone(i) => {
                            if let Some(o) = pool.get(*i) {
                                let c = o.clone();
                                pool.push(c);
                            }
                            "Clone"
                        }
                        ByOp::Drop(i) => {
                            if *i < pool.len() {
                                pool.remove(*i);
                            }
                            "Drop"
                        }
                        ByOp::Density(i, x) => {
                            if let Some(o) = pool.get(*i) {
                                let _ = catch(|| o.density(x.0));
                            }
                            "Density"
                        }
                        ByOp::Flood(l, k) => {
                            let dp = default_params(l);
                            for _ in 0..(*k).min(70_000) {
                                if catch(|| Obj::new(l, &dp)).is_err() {
                                    break;
                                }
                            }
                            "Flood"
                        }
                    };
                    st.inc(&format!("by.{}", name));
                    if alea::sim::draws() != d0 {
                        let v = mk("independence", "bystander_draws", &format!("bystander:{}", name),
                            format!("a non-sampling operation on another distribution object ({:?}) consumed {} RNG draw(s)", b, alea::sim::draws() - d0));
                        return finish(st, &mut h, &dh, v, mutations);
                    }
                }
                let d0 = alea::sim::draws();
                let mut vals = vec![];
                let mut end = String::new();
                for _ in 0..*k {
                    alea::sim::set_budget(SAMPLE_BUDGET);
                    match catch(|| subject.sample()) {
                        Ok(x) => vals.push(x.to_bits()),
                        Err(m) => {
                            end = if is_budget_panic(&m) { "nontermination".into() } else { "panic".into() };
                            break;
                        }
                    }
                }
                alea::sim::clear_budget();
                let a1 = Stream { vals, end, draws: alea::sim::draws() - d0 };
                drop(pool);
                if a0 != a1 {
                    let v = mk("independence", "bystander_changed_stream", "compare",
                        format!("seed {:#x}: the subject's stream changed when {} other object operation(s) ran between set_seed and sampling", seed.0, bystanders.len()));
                    return finish(st, &mut h, &dh, v, mutations);
                }
                // reproducibility: same seed again
                let a2 = stream(&subject, seed.0, *k);
                if a0 != a2 {
                    let v = mk("reproducible", "irreproducible", "compare", format!("seed {:#x}: two runs of {} draws from the same seed differ", seed.0, k));
                    return finish(st, &mut h, &dh, v, mutations);
                }
                // a clone of the object sampled on a brand-new OS thread (fresh thread-local
                // state everywhere) from the same seed must produce the same stream
                if seed.0 % 3 != 0 {
                    st.inc("compare.fresh_thread");
                    let sc = subject.clone();
                    let (sd, kk) = (seed.0, *k);
                    let obs_here = if models.len() == 1 { Some(observe(&subject, law, &models[0])) } else { None };
                    let (lw, md) = (law.to_string(), models[0].clone());
                    let want_obs = obs_here.is_some();
                    let fresh = std::thread::spawn(move || {
                        alea::sim::reset(alea::sim::DEFAULT_THREAD_INIT);
                        let o = if want_obs { Some(observe(&sc, &lw, &md)) } else { None };
                        (stream(&sc, sd, kk), o)
                    })
                    .join();
                    match fresh {
                        Ok((f, o)) if f == a0 => {
                            if o != obs_here {
                                let v = mk("independence", "density_depends_on_thread_history", "compare",
                                    "pdf/pmf/ln_pdf, mean or var of the same object evaluated on a fresh thread differ from those on the thread with the history: closed-form observables depend on state outside the object (or on the content of fresh memory)".to_string());
                                return finish(st, &mut h, &dh, v, mutations);
                            }
                        }
                        Ok((f, _)) => {
                            let pos = f.vals.iter().zip(&a0.vals).position(|(x, y)| x != y).unwrap_or(0);
                            let v = mk("independence", "depends_on_thread_history", "compare",
                                format!("seed {:#x}: the same object sampled from the same seed on a fresh thread gives a different stream (first difference at draw {}): the stream depends on state outside the object and the seed", seed.0, pos));
                            return finish(st, &mut h, &dh, v, mutations);
                        }
                        Err(_) => {
                            let v = mk("independence", "fresh_thread_panicked", "compare", "sampling a clone on a fresh thread panicked outside a caught call".to_string());
                            return finish(st, &mut h, &dh, v, mutations);
                        }
                    }
                }
                // bulk form: reproducible from the seed, and identical to the bulk draw of a fresh twin
                let nb = match (seed.0 >> 8) % 64 { 0 => 33usize, 1 => 257, 2 => 4096, 3 => 5000, 4 => 8192, 5 => 65_536, 6 => 70_001, 7 => 131_072, _ => 0 };
                let finite_model = models.len() == 1 && models[0].iter().all(|x| x.is_finite());
                if nb > 0 && a0.end.is_empty() && finite_model {
                    st.inc("compare.bulk");
                    let bulk = |o: &Obj| {
                        alea::set_seed(seed.0);
                        alea::sim::set_budget(SAMPLE_BUDGET + 64 * nb as u64);
                        let r = catch(|| o.sample_n(nb));
                        alea::sim::clear_budget();
                        r
                    };
                    let b1 = bulk(&subject);
                    let b2 = bulk(&subject);
                    let same = |x: &Result<Vec<f64>, String>, y: &Result<Vec<f64>, String>| match (x, y) {
                        (Ok(a), Ok(b)) => slice_bits_eq(a, b).is_none(),
                        (Err(_), Err(_)) => true,
                        _ => false,
                    };
                    if let Ok(v) = &b1 {
                        if v.len() != nb {
                            let v = mk("reproducible", "bulk_wrong_count", "compare", format!("sample_n({}) returned {} values", nb, v.len()));
                            return finish(st, &mut h, &dh, v, mutations);
                        }
                    }
                    if !same(&b1, &b2) {
                        let v = mk("reproducible", "bulk_irreproducible", "compare",
                            format!("seed {:#x}: two calls of sample_n({}) from the same seed differ", seed.0, nb));
                        return finish(st, &mut h, &dh, v, mutations);
                    }
                    if let Ok(twin) = catch(|| Obj::new(law, &models[0])) {
                        let b3 = bulk(&twin);
                        if !same(&b1, &b3) {
                            let v = mk("equals_fresh_twin", "stale_bulk_stream", "compare",
                                format!("seed {:#x}: sample_n({}) differs from that of a fresh {}({:?})", seed.0, nb, law, models[0]));
                            return finish(st, &mut h, &dh, v, mutations);
                        }
                    }
                }
                for x in &a0.vals {
                    h.u(*x);
                }
            }
            Step::New(_) | Step::Update(_) | Step::Set(..) => {
                let is_new = matches!(step, Step::New(_));
                let is_update = matches!(step, Step::Update(_));
                // target vector per candidate model
                let target = |m: &Vec<f64>| -> Option<Vec<f64>> {
                    match step {
                        Step::New(p) | Step::Update(p) => {
                            let p = unfb(p);
                            if p.len() == np { Some(canon(law, &p)) } else { None }
                        }
                        Step::Set(w, v) => {
                            if *w < np {
                                let mut c = m.clone();
                                c[*w] = v.0;
                                Some(canon(law, &c))
                            } else {
                                None
                            }
                        }
                        _ => None,
                    }
                };
                let t0 = match target(&models[0]) {
                    Some(t) => t,
                    None => continue,
                };
                let ok0 = is_valid(law, &t0);
                if !t0.iter().all(|x| x.is_finite()) {
                    st.inc("step.nonfinite");
                }
                let kind = if is_new { "new" } else if is_update { "update" } else { "set" };
                st.inc(&format!("step.{}.{}", kind, if ok0 { "valid" } else { "invalid" }));
                dh.u(if is_new { 1 } else if is_update { 2 } else { 3 });
                if let Step::Set(w, _) = step {
                    dh.u(*w as u64);
                }
                dh.u(ok0 as u64);
                for i in 0..np {
                    if t0[i].to_bits() != models[0][i].to_bits() || is_new || is_update {
                        dh.u(relation(models[0][i], t0[i]));
                        dh.u(crosses(law, models[0][i], t0[i]));
                    }
                }
                mutations += 1;
                let res = match step {
                    Step::New(p) => catch(|| Obj::new(law, &unfb(p))).map(|o| subject = o),
                    Step::Update(p) => catch(|| subject.update(&unfb(p))),
                    Step::Set(w, v) => catch(|| subject.set(*w, v.0)),
                    _ => Ok(()),
                };
                h.u(res.is_ok() as u64);
                let mut next: Vec<Vec<f64>> = vec![];
                for m in &models {
                    let t = target(m).unwrap();
                    let ok = is_valid(law, &t);
                    if ok != res.is_ok() {
                        continue;
                    }
                    let outs = if ok {
                        vec![t]
                    } else if is_update {
                        mixtures(law, m, &t)
                    } else {
                        vec![m.clone()]
                    };
                    for o in outs {
                        if !next.iter().any(|x| slice_bits_eq(x, &o).is_none()) {
                            next.push(o);
                        }
                    }
                }
                if next.is_empty() {
                    let v = if ok0 {
                        mk("valid_accepted", "valid_rejected", &opname,
                            format!("{} {:?} -> {:?} is valid but panicked: {}", opname, models[0], t0, res.err().unwrap_or_default()))
                    } else {
                        mk("invalid_rejected", "invalid_accepted", &opname,
                            format!("{} {:?} -> {:?} leaves the documented domain but did not panic", opname, models[0], t0))
                    };
                    return finish(st, &mut h, &dh, v, mutations);
                }
                if res.is_ok() {
                    st.inc("outcome.accepted");
                } else {
                    rejected = true;
                    st.inc("outcome.rejected");
                    st.inc("fault.reject");
                    if is_update {
                        st.inc("fault.partial");
                    }
                }
                models = next;
            }
        }
        // after every step: the subject equals a fresh twin of (one of) the admitted model(s)
        let mut surviving: Vec<Vec<f64>> = vec![];
        let mut first_err: Option<(String, String)> = None;
        for m in &models {
            match compare_full(&subject, law, m, step_seed, 12, &script, if step_seed % 2 == 0 { Some(&prev_model) } else { None }, st) {
                Ok(()) => surviving.push(m.clone()),
                Err(e) => {
                    if first_err.is_none() {
                        first_err = Some(e);
                    }
                }
            }
            fired_any += alea::sim::fired();
        }
        if surviving.is_empty() {
            let (class, detail) = first_err.unwrap();
            let v = if rejected && matches!(step, Step::Update(_)) {
                mk("rejected_leaves_valid_state", "partial_update_inconsistent", &opname,
                    format!("after the rejected update (step {}) the object equals no jointly valid mixture of old and new parameters {:?}; e.g. {}", si, models, detail))
            } else if rejected {
                mk("rejected_leaves_valid_state", "rejected_op_changed_state", &opname,
                    format!("after the rejected {} (step {}) the object no longer equals a fresh twin of its old parameters: {}", opname, si, detail))
            } else {
                mk("equals_fresh_twin", &class, &opname, format!("after step {} ({}): {}", si, opname, detail))
            };
            return finish(st, &mut h, &dh, v, mutations);
        }
        if rejected && matches!(step, Step::Update(_)) {
            if surviving.len() > 1 {
                st.inc("resync.ambiguous");
            }
            st.inc("resync.after_partial");
        }
        models = surviving;
        h.u(models[0].iter().fold(0u64, |a, x| a.rotate_left(9) ^ x.to_bits()));
        h.u(models.len() as u64);
    }
    if fired_any > 0 {
        for f in &case.script {
            st.inc(&format!("fault.{}", f.kind));
        }
    }
    finish(st, &mut h, &dh, None, mutations)
}

// ---- thread scenario ------------------------------------------------------------------------
// K real OS threads, each with its own alea seed and its own script of operations on its own
// object plus sampling from one shared Sync object. A (Mutex<turn>, Condvar) baton lets exactly
// one thread run between two scheduling points; the case's schedule says who runs next.
// Oracle: every thread's stream equals the single-threaded replay of its own script.

use std::sync::{Arc, Condvar, Mutex};

struct Baton {
    turn: Mutex<i64>, // thread id allowed to run, -1 = scheduler
    cv: Condvar,
}

fn thread_script(law: &str, init: &[f64], steps: &[Step], tid: usize, shared: &Obj, yield_point: &mut dyn FnMut()) -> Vec<u64> {
    // per-thread generator: seeded by the thread itself
    alea::sim::reset(0x5eed_0000 + tid as u64);
    alea::set_seed(1000 + tid as u64);
    let mut out = vec![];
    let mut obj = Obj::new(law, init);
    let mut model = init.to_vec();
    for s in steps {
        yield_point();
        match s {
            Step::Set(w, v) => {
                let mut cand = model.clone();
                if *w < cand.len() {
                    cand[*w] = v.0;
                    if valid(law, &cand) && catch(|| obj.set(*w, v.0)).is_ok() {
                        model = cand;
                    }
                }
            }
            Step::Update(p) | Step::New(p) => {
                let p = unfb(p);
                if p.len() == model.len() && valid(law, &p) && catch(|| obj.update(&p)).is_ok() {
                    model = p;
                }
            }
            _ => {}
        }
        for _ in 0..3 {
            alea::sim::set_budget(SAMPLE_BUDGET);
            out.push(catch(|| obj.sample()).map(|x| x.to_bits()).unwrap_or(0xdead));
            yield_point();
            alea::sim::set_budget(SAMPLE_BUDGET);
            out.push(catch(|| shared.sample()).map(|x| x.to_bits()).unwrap_or(0xdead));
        }
        alea::sim::clear_budget();
    }
    out.push(alea::get_seed());
    out.push(alea::sim::draws());
    out
}

fn exec_threads(case: &Case, st: &mut Stats) -> Option<Viol> {
    let law = case.law.clone();
    let init = if case.init.is_empty() { default_params(&case.law) } else { unfb(&case.init) };
    let k = case.threads.clamp(2, 4);
    st.inc("thread.scenarios");
    st.inc(&format!("law.{}", law));
    let mut h = H64::new();
    h.s(&law);
    h.u(k as u64);
    if !valid(&law, &init) {
        st.log = h.0;
        return None;
    }
    let shared = Arc::new(Obj::new(&law, &init));
    // single-threaded reference replays
    let mut reference = vec![];
    for tid in 0..k {
        let steps: Vec<Step> = case.steps.iter().skip(tid).cloned().collect();
        reference.push(thread_script(&law, &init, &steps, tid, &shared, &mut || {}));
    }
    let baton = Arc::new(Baton { turn: Mutex::new(-1), cv: Condvar::new() });
    let done = Arc::new(Mutex::new(vec![false; k]));
    let mut handles = vec![];
    for tid in 0..k {
        let baton = baton.clone();
        let done = done.clone();
        let shared = shared.clone();
        let law = law.clone();
        let init = init.clone();
        let steps: Vec<Step> = case.steps.iter().skip(tid).cloned().collect();
        handles.push(std::thread::spawn(move || {
            let b2 = baton.clone();
            let mut yp = move || {
                // hand the baton back to the scheduler and wait for our next turn
                let mut t = b2.turn.lock().unwrap();
                *t = -1;
                b2.cv.notify_all();
                while *t != tid as i64 {
                    t = b2.cv.wait(t).unwrap();
                }
            };
            // wait for the first turn
            {
                let mut t = baton.turn.lock().unwrap();
                while *t != tid as i64 {
                    t = baton.cv.wait(t).unwrap();
                }
            }
            let out = thread_script(&law, &init, &steps, tid, &shared, &mut yp);
            done.lock().unwrap()[tid] = true;
            let mut t = baton.turn.lock().unwrap();
            *t = -1;
            baton.cv.notify_all();
            out
        }));
    }
    // scheduler: follow the schedule, then round-robin until everybody is done
    let mut switches = 0u64;
    let mut si = 0usize;
    let mut last = usize::MAX;
    loop {
        let alive: Vec<usize> = { let d = done.lock().unwrap(); (0..k).filter(|i| !d[*i]).collect() };
        if alive.is_empty() {
            break;
        }
        let want = if si < case.schedule.len() { case.schedule[si] as usize % k } else { alive[si % alive.len()] };
        si += 1;
        let pick = if alive.contains(&want) { want } else { alive[0] };
        if pick != last {
            switches += 1;
            last = pick;
        }
        h.u(pick as u64);
        let mut t = baton.turn.lock().unwrap();
        *t = pick as i64;
        baton.cv.notify_all();
        while *t != -1 {
            t = baton.cv.wait(t).unwrap();
        }
    }
    st.add("thread.switches", switches);
    let mut verdict = None;
    for (tid, hd) in handles.into_iter().enumerate() {
        match hd.join() {
            Ok(out) => {
                for x in &out {
                    h.u(*x);
                }
                if out != reference[tid] && verdict.is_none() {
                    let pos = out.iter().zip(&reference[tid]).position(|(a, b)| a != b).unwrap_or(0);
                    verdict = Some(Viol::new("thread_isolation", "stream_depends_on_interleaving",
                        format!("thread {} of {}: value {} of its stream differs from the single-threaded replay of the same script", tid, k, pos))
                        .k("law", &law).k("op", "threads"));
                }
            }
            Err(_) => {
                if verdict.is_none() {
                    verdict = Some(Viol::new("thread_isolation", "thread_panicked", format!("thread {} panicked outside a caught call", tid)).k("law", &law).k("op", "threads"));
                }
            }
        }
    }
    st.add("ops", case.steps.len() as u64);
    h.u(verdict.is_some() as u64);
    st.log = h.0;
    let mut dh = H64::new();
    dh.s("threads");
    dh.s(&law);
    dh.u(k as u64);
    for s in case.schedule.iter().take(12) {
        dh.u(*s as u64);
    }
    st.distinct.push(dh.0);
    st.nontrivial = switches >= 2;
    verdict
}
