//! C19 — resampling never invents, loses or unpairs data (bootstrap, jackknife, shuffle,
//! shuffle_two), for every data vector and every random stream, length 1 upward.

use super::{Prop, Tier};
use crate::harness::*;
use crate::prng::{mix3, str_id, Sm};
use compute::validation::{bootstrap, jackknife, shuffle, shuffle_two};
use serde::{Deserialize, Serialize};
use serde_json::{json, Value};
use std::collections::BTreeMap;

pub struct C19;

#[derive(Clone, Copy, Debug, Serialize, Deserialize, PartialEq)]
pub enum Func {
    Bootstrap,
    Jackknife,
    Shuffle,
    ShuffleTwo,
}

#[derive(Clone, Copy, Debug, Serialize, Deserialize, PartialEq)]
pub enum Seeding {
    /// never seeded: the thread's generator starts from what the (simulated) clock hash gave
    Clock(Hx),
    /// what users type: set_seed(small integer)
    Small(u64),
    /// arbitrary set_seed
    Set(Hx),
}

impl Seeding {
    pub fn gen(r: &mut Sm) -> Seeding {
        match r.below(3) {
            0 => Seeding::Clock(Hx(r.next())),
            1 => Seeding::Small(*r.pick(&[0u64, 1, 2, 3, 7, 42, 123, 1234, 2021, 12345])),
            _ => Seeding::Set(Hx(r.next())),
        }
    }
    pub fn name(&self) -> &'static str {
        match self {
            Seeding::Clock(_) => "seed_clock",
            Seeding::Small(_) => "seed_small",
            Seeding::Set(_) => "seed_set",
        }
    }
    /// Reset the RNG seam for this thread and apply the seeding mode.
    pub fn apply(&self) {
        match self {
            Seeding::Clock(h) => alea::sim::reset(h.0),
            Seeding::Small(s) => {
                alea::sim::reset(alea::sim::DEFAULT_THREAD_INIT);
                alea::set_seed(*s)
            }
            Seeding::Set(h) => {
                alea::sim::reset(alea::sim::DEFAULT_THREAD_INIT);
                alea::set_seed(h.0)
            }
        }
    }
    pub fn simplest() -> Seeding {
        Seeding::Small(1)
    }
}

#[derive(Clone, Debug, Serialize, Deserialize, PartialEq)]
pub struct Forced {
    pub at: u64,
    pub raw: Hx,
    pub kind: String,
}

#[derive(Clone, Debug, Serialize, Deserialize)]
pub struct Case {
    pub func: Func,
    pub data: Vec<Fb>,
    pub mode: String,
    pub n_boot: usize,
    pub seeding: Seeding,
    pub script: Vec<Forced>,
    /// number of bootstrap calls whose index draws are pooled for the uniformity clause
    #[serde(default)]
    pub repeat: usize,
    /// calls made earlier on the same thread (function, data length): history that must not leak
    #[serde(default)]
    pub pre: Vec<(Func, usize)>,
    /// calls of the same function made earlier on the SAME buffer (same address and length) while it
    /// held other values: the buffer is then overwritten in place with `data`
    #[serde(default)]
    pub pre_same: usize,
    /// > 0: the earlier same-buffer calls read only the first `pre_prefix` elements (the data "grew"
    /// in place since)
    #[serde(default)]
    pub pre_prefix: usize,
    /// non-empty [lo, hi]: another client draws once from DiscreteUniform(lo, hi) on this thread
    /// immediately before the main call
    #[serde(default)]
    pub pre_du: Vec<i64>,
    /// k > 0: another client's bulk request (`DiscreteUniform(len + 7, len + 1000).sample_n(k + 5)`,
    /// values that are no index of the data) is cancelled after k draws on this thread just before
    /// the main call: the simulated generator refuses the (k+1)-th draw and the unwind is caught
    #[serde(default)]
    pub pre_cancel: u64,
    /// shuffle_two only: the SAME slice is passed as both arrays
    #[serde(default)]
    pub alias: bool,
    /// shuffle_two only: 2 = the two arrays are overlapping windows of one buffer (&s[..n], &s[k..n+k]);
    /// 3 = the second array is a separate copy of the first that differs only in the sign of its zeros
    #[serde(default)]
    pub alias_mode: u8,
    /// the earlier same-buffer calls read the main data in reversed order (same values, same address
    /// and length, other arrangement); their results are not judged
    #[serde(default)]
    pub pre_perm: bool,
}

/// structure-only check of one call on plain distinct data (used for the earlier calls of a run)
fn structural(func: Func, n: usize) -> Option<(&'static str, &'static str, String)> {
    let data: Vec<f64> = (0..n).map(|i| i as f64 + 0.25).collect();
    structural_on(func, &data)
}

/// the same, on a caller-owned buffer that holds i + 0.25 at position i
fn structural_on(func: Func, data: &[f64]) -> Option<(&'static str, &'static str, String)> {
    let n = data.len();
    alea::sim::set_budget(100_000 + 64 * n as u64);
    let r = match func {
        Func::Bootstrap => match catch(|| bootstrap(data, 3)) {
            Err(m) => Some(("bootstrap_structure", "panic", m)),
            Ok(out) => {
                if out.len() != 3 || out.iter().any(|v| v.len() != n) {
                    Some(("bootstrap_structure", "wrong_count", format!("earlier call: bootstrap of {} values x 3 returned {} vectors", n, out.len())))
                } else if out.iter().flatten().any(|x| !(x.fract() == 0.25 && *x >= 0.0 && *x < n as f64)) {
                    Some(("bootstrap_structure", "invented_element", "earlier call: element not in data".to_string()))
                } else {
                    None
                }
            }
        },
        Func::Jackknife => match catch(|| jackknife(data)) {
            Err(m) => Some(("jackknife_exact", "panic", m)),
            Ok(out) => {
                if out.len() != n || out.iter().enumerate().any(|(i, v)| v.len() != n - 1 || v.iter().any(|x| *x == data[i])) {
                    Some(("jackknife_exact", "wrong_vector", "earlier call: not the leave-one-out vectors".to_string()))
                } else {
                    None
                }
            }
        },
        Func::Shuffle => match catch(|| shuffle(data)) {
            Err(m) => Some(("shuffle_multiset", "panic", m)),
            Ok(out) => {
                let mut b = out.clone();
                b.sort_by(|x, y| x.total_cmp(y));
                if b != data {
                    Some(("shuffle_multiset", "not_a_permutation", format!("earlier call: shuffle of {} values is not a permutation", n)))
                } else {
                    None
                }
            }
        },
        Func::ShuffleTwo => {
            let tags: Vec<f64> = (0..n).map(tag).collect();
            match catch(|| shuffle_two(data, &tags)) {
                Err(m) => Some(("shuffle_two_paired", "panic", m)),
                Ok((x, y)) => {
                    let ok = x.len() == n && y.len() == n && {
                        let mut seen = vec![false; n];
                        (0..n).all(|j| {
                            let i = y[j] - 1000.0;
                            let good = i >= 0.0 && i < n as f64 && i.fract() == 0.0 && !seen[i as usize] && x[j] == data[i as usize];
                            if good {
                                seen[i as usize] = true;
                            }
                            good
                        })
                    };
                    if ok { None } else { Some(("shuffle_two_paired", "unpaired", format!("earlier call: shuffle_two of {} values broke pairs or lost elements", n))) }
                }
            }
        }
    };
    alea::sim::clear_budget();
    r
}

/// layer boundaries of the 128-layer ziggurat (fault seeds only: forced generator outputs are placed
/// on and next to the boundary `j == K[i]` of a layer's fast-accept region; if the library's table ever
/// differed, these would merely be ordinary interior values)
pub const ZIG_K: [u32; 128] = [
    0, 12590644, 14272653, 14988939, 15384584, 15635009, 15807561, 15933577,
    16029594, 16105155, 16166147, 16216399, 16258508, 16294295, 16325078, 16351831,
    16375291, 16396026, 16414479, 16431002, 16445880, 16459343, 16471578, 16482744,
    16492970, 16502368, 16511031, 16519039, 16526459, 16533352, 16539769, 16545755,
    16551348, 16556584, 16561493, 16566101, 16570433, 16574511, 16578353, 16581977,
    16585398, 16588629, 16591685, 16594575, 16597311, 16599901, 16602354, 16604679,
    16606881, 16608968, 16610945, 16612818, 16614592, 16616272, 16617861, 16619363,
    16620782, 16622121, 16623383, 16624570, 16625685, 16626730, 16627708, 16628619,
    16629465, 16630248, 16630969, 16631628, 16632228, 16632768, 16633248, 16633671,
    16634034, 16634340, 16634586, 16634774, 16634903, 16634972, 16634980, 16634926,
    16634810, 16634628, 16634381, 16634066, 16633680, 16633222, 16632688, 16632075,
    16631380, 16630598, 16629726, 16628757, 16627686, 16626507, 16625212, 16623794,
    16622243, 16620548, 16618698, 16616679, 16614476, 16612071, 16609444, 16606571,
    16603425, 16599973, 16596178, 16591995, 16587369, 16582237, 16576520, 16570120,
    16562917, 16554758, 16545450, 16534739, 16522287, 16507638, 16490152, 16468907,
    16442518, 16408804, 16364095, 16301683, 16207738, 16047994, 15704248, 15472926,
];

pub fn fault_raw(kind: &str, r: &mut Sm) -> u64 {
    match kind {
        "rng_zero" => 0,
        "rng_max" => u64::MAX,
        "rng_tiny" => 1 << 11,
        "rng_half" => 1 << 63,
        // Ziggurat: low 7 bits = layer 127, mid bits all ones => j >= K[i] => tail branch
        "rng_tail" => 0x0000_0000_FFFF_FF7F | ((r.next() & 1) << 7) | (r.next() << 32),
        // Ziggurat: a candidate exactly on / next to the edge of a layer's fast-accept region
        "rng_zig_edge" => {
            let i = match r.below(4) {
                0 => 127usize,
                1 => *r.pick(&[0usize, 1, 126]),
                _ => r.below(128) as usize,
            };
            let k = ZIG_K[i] as u64;
            let j = match r.below(3) {
                0 => k.saturating_sub(1),
                1 => k,
                _ => (k + 1).min(0xFF_FFFF),
            };
            (r.next() << 32) | (j << 8) | ((r.next() & 1) << 7) | i as u64
        }
        _ => r.next(),
    }
}

fn gen_data(r: &mut Sm, n: usize, mode: &str) -> Vec<f64> {
    match mode {
        "distinct" => {
            // distinct values in scrambled order
            let mut v: Vec<f64> = (0..n).map(|i| i as f64 * 1.5 - 7.25).collect();
            for i in (1..n).rev() {
                let j = r.below(i as u64 + 1) as usize;
                v.swap(i, j);
            }
            v
        }
        "special_distinct" => {
            // special values, every bit pattern at most once (so positions stay identifiable)
            let mut sp = vec![
                0.0,
                -0.0,
                f64::INFINITY,
                f64::NEG_INFINITY,
                f64::NAN,
                f64::from_bits(0x7ff8_0000_0000_0001),
                f64::from_bits(0xfff8_0000_0000_0000),
                f64::MIN_POSITIVE / 4.0,
                -f64::MIN_POSITIVE / 8.0,
                f64::MAX,
                1.0,
                1.5,
                3.0,
            ];
            for i in (1..sp.len()).rev() {
                let j = r.below(i as u64 + 1) as usize;
                sp.swap(i, j);
            }
            sp.truncate(n.min(13));
            sp
        }
        "repeated" => {
            let k = 1 + r.below(3) as usize;
            (0..n).map(|_| r.below(k as u64) as f64).collect()
        }
        _ => {
            let specials = [
                0.0,
                -0.0,
                f64::INFINITY,
                f64::NEG_INFINITY,
                f64::NAN,
                f64::from_bits(0x7ff8_0000_0000_0001),
                f64::from_bits(0xfff8_0000_0000_0000),
                f64::MIN_POSITIVE / 4.0,
                -f64::MIN_POSITIVE / 8.0,
                f64::MAX,
                1.0,
            ];
            (0..n).map(|_| *r.pick(&specials)).collect()
        }
    }
}

/// tag for the second array of shuffle_two: distinct, recoverable
fn tag(i: usize) -> f64 {
    1000.0 + i as f64
}

fn eps_dkw(n: u64) -> f64 {
    // alpha = 1e-12
    ((2.0f64 / 1e-12).ln() / (2.0 * n as f64)).sqrt()
}

impl Prop for C19 {
    const ID: &'static str = "C19";
    type Case = Case;

    fn runs(tier: Tier) -> u64 {
        match tier {
            Tier::Quick => 24_000,
            Tier::Thorough => 1_600_000,
        }
    }
    fn chunk(tier: Tier) -> u64 {
        match tier {
            Tier::Quick => 500,
            Tier::Thorough => 12_500,
        }
    }
    fn cpu_limit_s() -> u32 {
        8
    }

    fn gen(seed: u64, run: u64, tier: Tier) -> Case {
        let mut r = Sm::new(mix3(seed, str_id("C19"), run));
        if run < 256 {
            // every length 1..=64 for every function, fault-free, distinct data
            let n = (run / 4 + 1) as usize;
            let func = [Func::Bootstrap, Func::Jackknife, Func::Shuffle, Func::ShuffleTwo]
                [(run % 4) as usize];
            let data = fbs(&gen_data(&mut r, n, "distinct"));
            let n_boot = 60 + r.below(141) as usize;
            // short data (2..=40 elements) is visited deep: 3e6 (quick) / 3e7 (thorough) pooled index
            // draws, so that the chi-square over the positions sees a relative per-position bias of
            // a few percent (a byte- or table-mapped index sampler) at every short length
            let deep = func == Func::Bootstrap && (2..=40).contains(&n);
            let target: usize = match tier { Tier::Quick => 3_000_000, Tier::Thorough => 30_000_000 };
            let repeat = if deep { (target + n * n_boot - 1) / (n * n_boot) } else { 12 };
            return Case {
                func,
                data,
                mode: "distinct".into(),
                n_boot,
                seeding: Seeding::gen(&mut r),
                script: vec![],
                repeat,
                pre: vec![],
                pre_same: (run % 3 == 2) as usize,
                pre_prefix: if run % 6 == 2 { n / 2 } else { 0 },
                pre_du: vec![],
                pre_cancel: 0,
                alias: false,
                alias_mode: 0,
                pre_perm: false,
            };
        }
        let _ = tier;
        if run % 1000 == 700 {
            // deep uniformity runs: long data, ~8000 pooled draws per position, chi-square over all
            // positions (sees small periodic biases that no single position reveals)
            let n = 1500 + r.below(501) as usize;
            return Case {
                func: Func::Bootstrap,
                data: fbs(&gen_data(&mut r, n, "distinct")),
                mode: "distinct".into(),
                n_boot: 200,
                seeding: Seeding::gen(&mut r),
                script: vec![],
                repeat: 40,
                pre: vec![],
                pre_same: 0,
                pre_prefix: 0,
                pre_du: vec![],
                pre_cancel: 0,
                alias: false,
                alias_mode: 0,
                pre_perm: false,
            };
        }
        let func = *r.pick(&[
            Func::Bootstrap,
            Func::Bootstrap,
            Func::Jackknife,
            Func::Shuffle,
            Func::ShuffleTwo,
        ]);
        let n = match r.below(10) {
            0 => 1,
            1 => 2,
            2..=5 => r.usize(1, 64),
            6..=8 => r.usize(65, 400),
            _ => r.usize(401, 2000),
        };
        let mode = *r.pick(&["distinct", "distinct", "repeated", "special", "special_distinct"]);
        // a tenth of the runs use power-of-two geometry (block-size boundaries of bulk code paths)
        let pow2 = r.chance(0.1);
        let n = if mode == "special_distinct" { 2 + r.below(11) as usize } else if pow2 { 1usize << r.below(11) } else { n };
        let data = gen_data(&mut r, n, mode);
        let n_boot = if r.chance(0.5) { r.usize(40, 200) } else { r.usize(1, 39) };
        // keep a single run bounded: n * n_boot <= 120k draws
        let n_boot = if pow2 { (1usize << r.below(8)).max(1) } else { n_boot };
        // (power-of-two geometry may reach n * n_boot = 2^17, the largest such product in the domain)
        let n_boot = n_boot.min(((if pow2 { 140_000 } else { 120_000 }) / n).max(1));
        let (n, n_boot, data) = if pow2 && mode != "special_distinct" && r.chance(0.15) {
            let nb = *r.pick(&[64usize, 128]);
            (1024, nb, gen_data(&mut r, 1024, mode))
        } else {
            (n, n_boot, data)
        };
        let seeding = Seeding::gen(&mut r);
        let mut script = vec![];
        if r.chance(0.35) {
            // faults land inside the index draws of the call
            let total = match func {
                Func::Bootstrap => (n * n_boot) as u64,
                Func::Jackknife => 0,
                _ => 4 * n as u64,
            };
            if total > 0 {
                let nf = 1 + r.below(3);
                for _ in 0..nf {
                    let kind = *r.pick(&["rng_zero", "rng_max", "rng_tiny", "rng_half", "rng_streak", "rng_pair"]);
                    let at = match r.below(4) {
                        0 => 0,
                        1 => total - 1,
                        _ => r.below(total),
                    };
                    if kind == "rng_pair" {
                        let ex = [0u64, u64::MAX, 1 << 63, 1 << 11, 0xFFFF_FFFF, 0xFFFF_FFFF_0000_0000, 1];
                        script.push(Forced { at, raw: Hx(*r.pick(&ex)), kind: kind.into() });
                        script.push(Forced { at: at + 1, raw: Hx(*r.pick(&ex)), kind: kind.into() });
                    } else if kind == "rng_streak" {
                        let raw = *r.pick(&[0u64, u64::MAX, 1, 1 << 63]);
                        let k = 2 + r.below(6);
                        for j in 0..k {
                            script.push(Forced { at: at + j, raw: Hx(raw), kind: kind.into() });
                        }
                    } else {
                        script.push(Forced { at, raw: Hx(fault_raw(kind, &mut r)), kind: kind.into() });
                    }
                }
                script.truncate(alea::sim::SCRIPT_MAX);
            }
        }
        // pooled calls so that every position expects >= ~600 hits (fault-free, distinct data)
        let repeat = if func == Func::Bootstrap && (mode == "distinct" || mode == "special_distinct") && script.is_empty() && r.chance(0.5) { ((600 + n_boot - 1) / n_boot).min(600) } else { 1 };
        // a third of the runs make 1..3 other calls first, on the same thread, with other lengths
        let mut pre = vec![];
        if r.chance(0.33) {
            for _ in 0..(1 + r.below(3)) {
                let f = *r.pick(&[Func::Bootstrap, Func::Jackknife, Func::Shuffle, Func::ShuffleTwo, Func::ShuffleTwo]);
                let len = match r.below(3) { 0 => r.usize(1, 8), 1 => r.usize(9, 64), _ => r.usize(n + 1, 2 * n + 40) };
                pre.push((f, len.min(3000)));
            }
        }
        let pre_same = if r.chance(0.25) { 1 + r.below(2) as usize } else { 0 };
        let pre_prefix = if pre_same > 0 && n >= 2 && r.chance(0.5) { 1 + r.below(n as u64 - 1) as usize } else { 0 };
        // a rejected request (empty data) somewhere among the earlier calls
        if r.chance(0.1) {
            let f = *r.pick(&[Func::Bootstrap, Func::Jackknife, Func::Shuffle, Func::ShuffleTwo, Func::ShuffleTwo]);
            let at = r.below(pre.len() as u64 + 1) as usize;
            pre.insert(at, (f, 0));
            if r.chance(0.5) {
                pre.push((*r.pick(&[Func::Shuffle, Func::Bootstrap]), 1 + r.below(12) as usize));
            }
        }
        // another client of the generator draws an index-like value just before the call
        let pre_du = if r.chance(0.15) {
            let hi = if r.chance(0.6) { n as i64 - 1 } else { r.below(2 * n as u64 + 3) as i64 };
            let lo = if hi > 0 { 1 + r.below(hi as u64) as i64 } else { hi };
            vec![lo.min(hi), hi]
        } else {
            vec![]
        };
        let alias = func == Func::ShuffleTwo && r.chance(0.12);
        let alias_mode = if func == Func::ShuffleTwo && !alias && r.chance(0.2) { 2 + r.below(2) as u8 } else { 0 };
        let pre_perm = pre_same > 0 && r.chance(0.4);
        // drawn last, so that the cases of earlier engine versions are unchanged for a given seed
        let pre_cancel = if r.chance(0.12) { 1 + r.below(6) } else { 0 };
        Case { func, data: fbs(&data), mode: mode.into(), n_boot, seeding, script, repeat, pre, pre_same, pre_prefix, pre_du, alias, alias_mode, pre_perm, pre_cancel }
    }

    fn exec(case: &Case, st: &mut Stats) -> Option<Viol> {
        let n = case.data.len();
        // the buffer the main call reads; with pre_same > 0 it first holds other values and is read
        // by earlier calls of the same function, then it is overwritten in place
        let mut data: Vec<f64> = Vec::with_capacity(n);
        let mut same_verdict: Option<Viol> = None;
        if case.pre_same > 0 {
            case.seeding.apply();
            if case.pre_perm {
                data.extend(case.data.iter().rev().map(|x| x.0));
            } else {
                data.extend((0..n).map(|i| i as f64 + 0.25));
            }
            let upto = if case.pre_prefix > 0 && case.pre_prefix < n { case.pre_prefix } else { n };
            for _ in 0..case.pre_same {
                st.inc("earlier_calls_on_same_buffer");
                if case.pre_perm {
                    // environment only: the same values in another arrangement at this address
                    st.inc("earlier_calls_same_values_other_order");
                    alea::sim::set_budget(100_000 + 64 * n as u64);
                    let _ = match case.func {
                        Func::Bootstrap => catch(|| bootstrap(&data[..upto], 2).len()),
                        Func::Jackknife => catch(|| jackknife(&data[..upto]).len()),
                        Func::Shuffle => catch(|| shuffle(&data[..upto]).len()),
                        Func::ShuffleTwo => catch(|| shuffle_two(&data[..upto], &data[..upto]).0.len()),
                    };
                    alea::sim::clear_budget();
                    continue;
                }
                if let Some((check, class, detail)) = structural_on(case.func, &data[..upto]) {
                    same_verdict = Some(Viol::new(check, class, detail).k("func", format!("{:?}", case.func)).k("len", "earlier_call"));
                    break;
                }
            }
            data.clear();
        }
        data.extend(case.data.iter().map(|x| x.0));
        let fname = format!("{:?}", case.func);
        let lenclass = if n == 1 { "len1" } else if n <= 8 { "len2-8" } else { "len9+" };
        let mut h = H64::new();
        h.s(&fname);
        h.fs(&data);
        case.seeding.apply();
        let mut pre_verdict: Option<Viol> = same_verdict;
        for (pf, pl) in &case.pre {
            if pre_verdict.is_some() {
                break;
            }
            st.inc("earlier_calls_on_thread");
            if *pl == 0 {
                // a request on empty data: whatever it does (it is outside "every length from 1
                // upward"), the unwind is caught and the thread carries on
                st.inc("earlier_rejected_request");
                alea::sim::set_budget(10_000);
                let _ = match pf {
                    Func::Bootstrap => catch(|| bootstrap(&[], 2).len()),
                    Func::Jackknife => catch(|| jackknife(&[]).len()),
                    Func::Shuffle => catch(|| shuffle(&[]).len()),
                    Func::ShuffleTwo => {
                        let _ = catch(|| shuffle_two(&[], &[]).0.len());
                        catch(|| shuffle_two(&[1.0, 2.0, 3.0, 4.0, 5.0], &[1.0, 2.0]).0.len())
                    }
                };
                alea::sim::clear_budget();
                continue;
            }
            if let Some((check, class, detail)) = structural(*pf, (*pl).max(1)) {
                pre_verdict = Some(Viol::new(check, class, detail).k("func", format!("{:?}", pf)).k("len", "earlier_call"));
                break;
            }
        }
        if case.pre_du.len() == 2 && case.pre_du[0] <= case.pre_du[1] {
            st.inc("other_client_draws_first");
            let (lo, hi) = (case.pre_du[0], case.pre_du[1]);
            alea::sim::set_budget(10_000);
            let _ = catch(|| compute::distributions::Distribution::sample(&compute::distributions::DiscreteUniform::new(lo, hi)));
            alea::sim::clear_budget();
        }
        if case.pre_cancel > 0 {
            st.inc("other_client_bulk_request_cancelled");
            use compute::distributions::Distribution1D;
            let (lo, hi) = (n as i64 + 7, n as i64 + 1000);
            alea::sim::set_budget(case.pre_cancel);
            let k = case.pre_cancel as usize + 5;
            let _ = catch(|| compute::distributions::DiscreteUniform::new(lo, hi).sample_n(k).len());
            alea::sim::clear_budget();
        }
        let base = alea::sim::draws();
        let script: Vec<(u64, u64)> = case.script.iter().map(|f| (base + f.at, f.raw.0)).collect();
        alea::sim::set_script(&script);
        let faulty = !script.is_empty();
        let expected_draws: u64 = match case.func {
            Func::Bootstrap => (n * case.n_boot) as u64,
            Func::Jackknife => 0,
            _ => 4 * n as u64,
        };
        alea::sim::set_budget(100_000 + 8 * expected_draws);
        st.inc(&format!("call.{}", fname));
        st.inc(&format!("seeding.{}", case.seeding.name()));
        st.inc(&format!("mode.{}", case.mode));
        st.inc(&format!("len.{}", lenclass));

        let mk = |check: &str, class: &str, detail: String| {
            Some(
                Viol::new(check, class, detail)
                    .k("func", &fname)
                    .k("len", lenclass),
            )
        };
        let orig_bits: std::collections::HashSet<u64> = data.iter().map(|x| x.to_bits()).collect();
        let mut verdict: Option<Viol> = pre_verdict;

        match if verdict.is_some() { Func::Jackknife } else { case.func } {
            Func::Bootstrap => {
                let distinct = orig_bits.len() == n;
                let mut counts = vec![0u64; n];
                // joint (output position, drawn index) counts for small data
                let joint_on = distinct && n <= 12;
                let mut joint = vec![0u64; if joint_on { n * n } else { 0 }];
                let pos_of: BTreeMap<u64, usize> = if distinct {
                    data.iter().enumerate().map(|(i, x)| (x.to_bits(), i)).collect()
                } else {
                    BTreeMap::new()
                };
                // order inside a resample: disjoint adjacent pairs and per-place (mod 16) means
                let (mut pairs, mut desc) = (0u64, 0u64);
                let mut place_sum = [0.0f64; 16];
                let mut place_cnt = [0u64; 16];
                let calls = if faulty { 1 } else { case.repeat.max(1) };
                'calls: for _call in 0..calls {
                    alea::sim::set_budget(100_000 + 8 * expected_draws);
                    let res = catch(|| bootstrap(&data, case.n_boot));
                    match res {
                        Err(msg) => {
                            let class = if is_budget_panic(&msg) { "nontermination" } else { "panic" };
                            verdict = mk("bootstrap_structure", class, msg);
                            break 'calls;
                        }
                        Ok(out) => {
                            h.u(out.len() as u64);
                            if out.len() != case.n_boot {
                                verdict = mk("bootstrap_structure", "wrong_count",
                                    format!("asked {} resamples, got {}", case.n_boot, out.len()));
                                break 'calls;
                            }
                            for (bi, v) in out.iter().enumerate() {
                                h.fs(v);
                                if v.len() != n {
                                    verdict = mk("bootstrap_structure", "wrong_length",
                                        format!("resample {} has length {} != {}", bi, v.len(), n));
                                    break 'calls;
                                }
                                for (j, x) in v.iter().enumerate() {
                                    if !orig_bits.contains(&x.to_bits()) {
                                        verdict = mk("bootstrap_structure", "invented_element",
                                            format!("resample {} pos {} = {:e} (0x{:016x}) not in data", bi, j, x, x.to_bits()));
                                        break 'calls;
                                    }
                                    if distinct {
                                        let i = pos_of[&x.to_bits()];
                                        counts[i] += 1;
                                        place_sum[j % 16] += i as f64;
                                        place_cnt[j % 16] += 1;
                                        if j % 2 == 1 {
                                            let prev = pos_of[&v[j - 1].to_bits()];
                                            pairs += 1;
                                            if prev > i {
                                                desc += 1;
                                            }
                                        }
                                        if joint_on {
                                            joint[j * n + i] += 1;
                                        }
                                    }
                                }
                            }
                        }
                    }
                }
                // statistical clause: fault-free, distinct data only, pooled over the calls
                if verdict.is_none() && distinct && !faulty && n >= 2 {
                    let total: u64 = counts.iter().sum();
                    if total >= 2000 {
                        st.inc("stat.dkw_checked");
                        let eps = eps_dkw(total);
                        let mut cum = 0u64;
                        let mut worst = 0.0f64;
                        let mut at = 0;
                        for k in 0..n {
                            cum += counts[k];
                            let d = (cum as f64 / total as f64 - (k + 1) as f64 / n as f64).abs();
                            if d > worst {
                                worst = d;
                                at = k;
                            }
                        }
                        if worst > eps {
                            verdict = mk("bootstrap_uniform", "dkw_exceeded",
                                format!("index ECDF off by {:.4} at position {} (band {:.4}, N={}, n={})", worst, at, eps, total, n));
                        }
                    }
                    if verdict.is_none() && (total as f64) >= n as f64 * ((n as f64).ln() + 28.0) {
                        st.inc("stat.coverage_checked");
                        if let Some(k) = counts.iter().position(|c| *c == 0) {
                            verdict = mk("bootstrap_uniform", "position_never_drawn",
                                format!("position {} of {} never drawn in {} draws", k, n, total));
                        }
                    }
                    // the draws of one resample are exchangeable: among disjoint adjacent pairs the first is
                    // larger with probability (1 - 1/n)/2, and every place (mod 16) has mean index (n-1)/2
                    if verdict.is_none() && pairs >= 2000 {
                        st.inc("stat.order_checked");
                        let p = (1.0 - 1.0 / n as f64) / 2.0;
                        let eps = ((8.0f64 / 1e-12).ln() / (2.0 * pairs as f64)).sqrt();
                        let frac = desc as f64 / pairs as f64;
                        if (frac - p).abs() > eps {
                            verdict = mk("bootstrap_uniform", "order_within_resample",
                                format!("in {} disjoint adjacent pairs of a resample the first drawn position is the larger one in {:.4} of them; independent uniform draws give {:.4} +- {:.4}", pairs, frac, p, eps));
                        }
                        for c in 0..16 {
                            if verdict.is_none() && place_cnt[c] >= 2000 && n >= 2 {
                                let mean = place_sum[c] / place_cnt[c] as f64 / (n - 1) as f64;
                                let e = ((128.0f64 / 1e-12).ln() / (2.0 * place_cnt[c] as f64)).sqrt();
                                if (mean - 0.5).abs() > e {
                                    verdict = mk("bootstrap_uniform", "place_not_uniform",
                                        format!("places congruent {} mod 16 of the resamples have mean relative position {:.4}; uniform draws give 0.5 +- {:.4}", c, mean, e));
                                }
                            }
                        }
                    }
                    // every output position draws every index equally often (small data): catches
                    // resamples that are copies or fixed rearrangements of the data
                    if verdict.is_none() && joint_on {
                        let m = total / n as u64; // draws per output position
                        if m >= 60 {
                            st.inc("stat.joint_checked");
                            let mu = m as f64 / n as f64;
                            let l = (2.0 * (n * n) as f64 / 1e-12).ln();
                            let t = (2.0 * mu * l).sqrt() + (2.0 / 3.0) * l;
                            'jj: for j in 0..n {
                                for i in 0..n {
                                    if (joint[j * n + i] as f64 - mu).abs() > t {
                                        verdict = mk("bootstrap_uniform", "position_index_dependence",
                                            format!("output position {} received input position {} {} times in {} resamples; expected {:.1} +- {:.1}", j, i, joint[j * n + i], m, mu, t));
                                        break 'jj;
                                    }
                                }
                            }
                        }
                    }
                    // chi-square over all positions once every position expects >= 2000 hits.
                    // Threshold k + 2*sqrt(k*x) + 2x with x = 60: for an exact chi-square_k variable the
                    // Laurent-Massart bound gives a tail < e^-60; with >= 2000 expected hits per cell the
                    // multinomial statistic is far inside the range where that bound has orders of
                    // magnitude to spare against the 1e-12 budget.
                    if verdict.is_none() && total >= 2000 * n as u64 {
                        st.inc("stat.chi_square_checked");
                        let mu = total as f64 / n as f64;
                        let chi2: f64 = counts.iter().map(|c| (*c as f64 - mu).powi(2) / mu).sum();
                        let k = (n - 1) as f64;
                        let thr = k + 2.0 * (k * 60.0).sqrt() + 120.0;
                        if chi2 > thr {
                            verdict = mk("bootstrap_uniform", "chi_square_exceeded",
                                format!("chi-square of the position counts = {:.1} with {} degrees of freedom (threshold {:.1}; N = {}, n = {})", chi2, n - 1, thr, total, n));
                        }
                    }
                    // per-position frequency: Bernstein bound with the 1e-12 budget split over positions
                    if verdict.is_none() && total >= 50 * n as u64 {
                        st.inc("stat.frequency_checked");
                        let mu = total as f64 / n as f64;
                        let l = (2.0 * n as f64 / 1e-12).ln();
                        let t = (2.0 * mu * l).sqrt() + (2.0 / 3.0) * l;
                        for k in 0..n {
                            if (counts[k] as f64 - mu).abs() > t {
                                verdict = mk("bootstrap_uniform", "position_frequency_off",
                                    format!("position {} of {} drawn {} times in {} draws; expected {:.1} +- {:.1} (Bernstein, alpha 1e-12 over all positions)", k, n, counts[k], total, mu, t));
                                break;
                            }
                        }
                    }
                }
            }
            Func::Jackknife if verdict.is_some() => {}
            Func::Jackknife => {
                match catch(|| jackknife(&data)) {
                    Err(msg) => verdict = mk("jackknife_exact", "panic", msg),
                    Ok(out) => {
                        if out.len() != n {
                            verdict = mk("jackknife_exact", "wrong_count",
                                format!("expected {} leave-one-out vectors, got {}", n, out.len()));
                        } else {
                            for i in 0..n {
                                h.fs(&out[i]);
                                let mut exp = data.clone();
                                exp.remove(i);
                                if slice_bits_eq(&exp, &out[i]).is_some() {
                                    verdict = mk("jackknife_exact", "wrong_vector",
                                        format!("vector {} is not data without element {}", i, i));
                                    break;
                                }
                            }
                        }
                    }
                }
            }
            Func::Shuffle => match catch(|| shuffle(&data)) {
                Err(msg) => {
                    let class = if is_budget_panic(&msg) { "nontermination" } else { "panic" };
                    verdict = mk("shuffle_multiset", class, msg);
                }
                Ok(out) => {
                    h.fs(&out);
                    let mut a: Vec<u64> = data.iter().map(|x| x.to_bits()).collect();
                    let mut b: Vec<u64> = out.iter().map(|x| x.to_bits()).collect();
                    a.sort_unstable();
                    b.sort_unstable();
                    if a != b {
                        verdict = mk("shuffle_multiset", "not_a_permutation",
                            format!("output multiset differs from input (len in {}, out {})", n, out.len()));
                    } else if !faulty && n >= 20 && orig_bits.len() == n && slice_bits_eq(&out, &data).is_none() {
                        // "for every random stream ... a permutation": a shuffle that hands back its
                        // input in the original order, on >= 20 distinct values, has not consulted the
                        // stream (a uniform permutation is the identity with probability 1/n! < 5e-19)
                        st.inc("stat.identity_checked");
                        verdict = mk("shuffle_multiset", "identity_permutation",
                            format!("shuffle of {} distinct values returned them in their original order", n));
                    } else if !faulty && n >= 20 && orig_bits.len() == n {
                        st.inc("stat.identity_checked");
                    }
                }
            },
            Func::ShuffleTwo if case.alias_mode == 2 && n >= 2 => {
                // overlapping windows of one buffer: pairs are (s[j], s[j + k])
                st.inc("call.shuffle_two_overlapping");
                let k = 1 + (case.n_boot % (n - 1).max(1));
                let sbuf: Vec<f64> = (0..n + k).map(|i| 1000.0 + i as f64).collect();
                match catch(|| shuffle_two(&sbuf[..n], &sbuf[k..n + k])) {
                    Err(msg) => {
                        let class = if is_budget_panic(&msg) { "nontermination" } else { "panic" };
                        verdict = mk("shuffle_two_paired", class, msg);
                    }
                    Ok((x, y)) => {
                        h.fs(&x);
                        h.fs(&y);
                        let mut xs = x.clone();
                        xs.sort_by(|a, b| a.total_cmp(b));
                        if x.len() != n || y.len() != n || xs != sbuf[..n] {
                            verdict = mk("shuffle_two_paired", "not_a_permutation", format!("shuffle_two on overlapping windows: first output is not a permutation of the first window (len {})", n));
                        } else if let Some(j) = (0..n).find(|j| y[*j] != x[*j] + k as f64) {
                            verdict = mk("shuffle_two_paired", "unpaired", format!("shuffle_two(&s[..{}], &s[{}..]): output pair {} = ({}, {}) is not an input pair (s[i], s[i+{}])", n, k, j, x[j], y[j], k));
                        }
                    }
                }
            }
            Func::ShuffleTwo if case.alias_mode == 3 => {
                // a separate second array, numerically equal to the first, differing in the sign of zeros
                st.inc("call.shuffle_two_signed_zero_twin");
                let mut a1 = data.clone();
                if n >= 2 {
                    a1[0] = 0.0;
                    a1[n / 2] = -0.0;
                }
                let a2: Vec<f64> = a1.iter().map(|v| if *v == 0.0 { -*v } else { *v }).collect();
                match catch(|| shuffle_two(&a1, &a2)) {
                    Err(msg) => {
                        let class = if is_budget_panic(&msg) { "nontermination" } else { "panic" };
                        verdict = mk("shuffle_two_paired", class, msg);
                    }
                    Ok((x, y)) => {
                        h.fs(&x);
                        h.fs(&y);
                        let mut want: Vec<(u64, u64)> = a1.iter().zip(&a2).map(|(p, q)| (p.to_bits(), q.to_bits())).collect();
                        let mut got: Vec<(u64, u64)> = x.iter().zip(&y).map(|(p, q)| (p.to_bits(), q.to_bits())).collect();
                        want.sort_unstable();
                        got.sort_unstable();
                        if want != got {
                            verdict = mk("shuffle_two_paired", "unpaired", format!("shuffle_two of two numerically equal arrays that differ in the sign of a zero: the output pairs (by bit pattern) are not the input pairs (len {})", n));
                        }
                    }
                }
            }
            Func::ShuffleTwo if case.alias => {
                // one array passed twice: both results must be the same permutation of it
                st.inc("call.shuffle_two_aliased");
                match catch(|| shuffle_two(&data, &data)) {
                    Err(msg) => {
                        let class = if is_budget_panic(&msg) { "nontermination" } else { "panic" };
                        verdict = mk("shuffle_two_paired", class, msg);
                    }
                    Ok((x, y)) => {
                        h.fs(&x);
                        h.fs(&y);
                        let mut a: Vec<u64> = data.iter().map(|v| v.to_bits()).collect();
                        let mut b: Vec<u64> = x.iter().map(|v| v.to_bits()).collect();
                        a.sort_unstable();
                        b.sort_unstable();
                        if a != b {
                            verdict = mk("shuffle_two_paired", "not_a_permutation", format!("shuffle_two(v, v): first output is not a permutation of v (len in {}, out {})", n, x.len()));
                        } else if slice_bits_eq(&x, &y).is_some() {
                            verdict = mk("shuffle_two_paired", "unpaired", "shuffle_two(v, v) with the same slice as both arrays returned two different arrangements".to_string());
                        }
                    }
                }
            }
            Func::ShuffleTwo => {
                let tags: Vec<f64> = (0..n).map(tag).collect();
                match catch(|| shuffle_two(&data, &tags)) {
                    Err(msg) => {
                        let class = if is_budget_panic(&msg) { "nontermination" } else { "panic" };
                        verdict = mk("shuffle_two_paired", class, msg);
                    }
                    Ok((x, y)) => {
                        h.fs(&x);
                        h.fs(&y);
                        if x.len() != n || y.len() != n {
                            verdict = mk("shuffle_two_paired", "wrong_length",
                                format!("lengths {} / {} != {}", x.len(), y.len(), n));
                        } else {
                            let mut seen = vec![false; n];
                            for j in 0..n {
                                let i = y[j] - 1000.0;
                                if !(i >= 0.0 && i < n as f64 && i.fract() == 0.0) || seen[i as usize] {
                                    verdict = mk("shuffle_two_paired", "not_a_permutation",
                                        format!("second array position {} holds {:e}: not an unused input tag", j, y[j]));
                                    break;
                                }
                                seen[i as usize] = true;
                                if x[j].to_bits() != data[i as usize].to_bits() {
                                    verdict = mk("shuffle_two_paired", "unpaired",
                                        format!("output pair {} = ({:e}, tag {}) but input pair {} was ({:e}, tag {})", j, x[j], i, i, data[i as usize], i));
                                    break;
                                }
                            }
                            if verdict.is_none() && !faulty && n >= 20 {
                                st.inc("stat.identity_checked");
                                if (0..n).all(|j| y[j] == tag(j)) {
                                    verdict = mk("shuffle_two_paired", "identity_permutation",
                                        format!("shuffle_two of {} pairs returned them in their original order", n));
                                }
                            }
                        }
                    }
                }
            }
        }
        let fired = alea::sim::fired();
        let mask = alea::sim::fired_mask();
        for (i, f) in case.script.iter().enumerate() {
            if mask & (1 << i) != 0 {
                st.inc(&format!("fault.{}", f.kind));
            }
        }
        let draws = alea::sim::draws();
        st.add("rng_draws", draws);
        st.add("ops", 1);
        alea::sim::clear_budget();
        alea::sim::clear_script();
        h.u(draws);
        h.u(fired);
        h.u(verdict.is_some() as u64);
        st.log = h.0;
        // distinctness: abstract shape of the case
        let mut d = H64::new();
        d.s(&fname);
        d.u(if n <= 64 { n as u64 } else { 64 + (n as f64).log2() as u64 });
        d.s(&case.mode);
        d.s(case.seeding.name());
        d.u((case.n_boot as f64).log2() as u64);
        let mut kinds: Vec<&str> = case.script.iter().map(|f| f.kind.as_str()).collect();
        kinds.sort();
        kinds.dedup();
        for k in kinds {
            d.s(k);
        }
        d.u(fired.min(3));
        st.distinct.push(d.0);
        st.nontrivial = n >= 2 || fired > 0;
        verdict
    }

    fn shrink(case: &Case) -> Vec<Case> {
        let mut out = vec![];
        let n = case.data.len();
        // drop forced draws
        if !case.script.is_empty() {
            let mut c = case.clone();
            c.script.clear();
            out.push(c);
            for i in 0..case.script.len() {
                let mut c = case.clone();
                c.script.remove(i);
                out.push(c);
            }
        }
        // shorter data (keep the same residue classes irrelevant here): halves, then -1
        for m in [1usize, 2, n / 2, n.saturating_sub(1)] {
            if m >= 1 && m < n {
                let mut c = case.clone();
                c.data.truncate(m);
                c.script.retain(|f| f.at < 4 * m as u64 * c.n_boot.max(1) as u64);
                out.push(c);
            }
        }
        // fewer resamples
        for b in [1usize, 2, case.n_boot / 2, case.n_boot.saturating_sub(1)] {
            if b >= 1 && b < case.n_boot {
                let mut c = case.clone();
                c.n_boot = b;
                out.push(c);
            }
        }
        if !case.pre.is_empty() {
            let mut c = case.clone();
            c.pre.clear();
            out.push(c);
            for i in 0..case.pre.len() {
                let mut c = case.clone();
                c.pre.remove(i);
                out.push(c);
            }
        }
        if case.pre_same > 0 {
            let mut c = case.clone();
            c.pre_same = 0;
            c.pre_prefix = 0;
            out.push(c);
        }
        if case.pre_prefix > 0 {
            let mut c = case.clone();
            c.pre_prefix = 0;
            out.push(c);
        }
        if !case.pre_du.is_empty() {
            let mut c = case.clone();
            c.pre_du.clear();
            out.push(c);
        }
        if case.pre_cancel > 0 {
            let mut c = case.clone();
            c.pre_cancel = 0;
            out.push(c);
            if case.pre_cancel > 1 {
                let mut c = case.clone();
                c.pre_cancel = 1;
                out.push(c);
            }
        }
        if case.alias {
            let mut c = case.clone();
            c.alias = false;
            out.push(c);
        }
        if case.pre_perm {
            let mut c = case.clone();
            c.pre_perm = false;
            out.push(c);
        }
        for rp in [1usize, case.repeat / 2] {
            if rp >= 1 && rp < case.repeat {
                let mut c = case.clone();
                c.repeat = rp;
                out.push(c);
            }
        }
        // simpler values
        if case.mode != "distinct" {
            let mut c = case.clone();
            c.mode = "distinct".into();
            c.data = (0..n).map(|i| Fb(i as f64)).collect();
            out.push(c);
        } else {
            let simple: Vec<Fb> = (0..n).map(|i| Fb(i as f64)).collect();
            if simple != case.data {
                let mut c = case.clone();
                c.data = simple;
                out.push(c);
            }
        }
        if case.seeding != Seeding::simplest() {
            let mut c = case.clone();
            c.seeding = Seeding::simplest();
            out.push(c);
        }
        out
    }

    fn rule() -> &'static str {
        "case = (function, data vector, #resamples, seeding mode + seed, forced-draw script); runs 0..255 enumerate every length 1..=64 for each of the 4 functions, the rest are drawn from the run's seed. distinct = distinct abstract shapes (function, exact length up to 64 else log2 bucket, data mode, seeding mode, log2 #resamples, set of fault kinds, #forced draws consumed capped at 3); non-trivial = length >= 2 or at least one forced draw consumed"
    }
    fn assumptions() -> Vec<String> {
        vec![
            "sim-alea reproduces alea 0.2.2 bit for bit when its seam is inert (selftest alea)".into(),
            "forced raw outputs are legal outputs of a uniform u64 generator; the statistical clause is evaluated only in fault-free runs".into(),
            "uniformity is decided up to the DKW band at the pooled number of index draws of one call (alpha = 1e-12) plus an all-positions-hit check once N >= n(ln n + 28)".into(),
        ]
    }
    fn reach(c: &BTreeMap<String, u64>) -> Value {
        let pick = |p: &str| -> BTreeMap<String, u64> {
            c.iter().filter(|(k, _)| k.starts_with(p)).map(|(k, v)| (k.clone(), *v)).collect()
        };
        json!({
            "calls": pick("call."), "lengths": pick("len."), "data_modes": pick("mode."),
            "seeding_modes": pick("seeding."), "statistical_checks": pick("stat."),
        })
    }
    fn expected_counters(_tier: Tier) -> Vec<String> {
        [
            "call.Bootstrap", "call.Jackknife", "call.Shuffle", "call.ShuffleTwo", "len.len1",
            "len.len2-8", "len.len9+", "mode.distinct", "mode.repeated", "mode.special", "mode.special_distinct",
            "seeding.seed_clock", "seeding.seed_small", "seeding.seed_set", "fault.rng_zero",
            "fault.rng_max", "fault.rng_tiny", "fault.rng_half", "fault.rng_streak",
            "stat.dkw_checked", "stat.coverage_checked", "stat.frequency_checked", "stat.joint_checked", "stat.chi_square_checked", "stat.order_checked", "earlier_calls_on_thread", "earlier_calls_on_same_buffer", "earlier_rejected_request", "other_client_draws_first", "other_client_bulk_request_cancelled", "call.shuffle_two_aliased", "call.shuffle_two_overlapping", "call.shuffle_two_signed_zero_twin", "earlier_calls_same_values_other_order", "fault.rng_pair",
        ]
        .iter()
        .map(|s| s.to_string())
        .collect()
    }
    fn components() -> Value {
        json!({
            "real": ["compute::validation::{bootstrap,jackknife,shuffle,shuffle_two}", "compute::distributions::DiscreteUniform"],
            "stub": ["alea -> sim-alea (same generator; clock seeding replaced by simulator-supplied thread_init; draw budget; forced outputs)"]
        })
    }
}
