//! C03 — samplers draw from the distribution they describe, in every parameter regime.
//! The simulated environment is the random stream (seed, simulated clock seed, forced extreme
//! outputs) behind the thread-local generator; liveness is a bounded number of raw draws per
//! `sample()` call, with a CPU watchdog for loops that spin without drawing.

use super::c18::{param_names, Obj};
use super::c19::{fault_raw, Forced, Seeding};
use super::{Prop, Tier};
use crate::harness::*;
use crate::prng::{mix3, str_id, Sm};
use crate::refmath::*;
use compute::distributions::{Distribution, DistributionND, MVN};
use compute::linalg::Matrix;
use serde::{Deserialize, Serialize};
use serde_json::{json, Value};
use std::collections::BTreeMap;

pub struct C03;

#[derive(Clone, Copy, Debug, Serialize, Deserialize, PartialEq)]
pub enum Api {
    Loop,
    SampleN,
    /// sample_matrix(rows, n / rows)
    SampleMatrix(usize),
}

#[derive(Clone, Debug, Serialize, Deserialize)]
pub struct Case {
    pub law: String,
    /// univariate: the constructor parameters; MVN: [dim, mean.., covariance row-major..]
    pub params: Vec<Fb>,
    pub seeding: Seeding,
    pub api: Api,
    pub n: usize,
    pub script: Vec<Forced>,
    /// seeds the random projections of the MVN check
    pub aux: Hx,
    /// non-empty: the object is first constructed with these parameters and then moved to
    /// `params` with update() (the parameter setting is reached through a mutation)
    #[serde(default)]
    pub via: Vec<Fb>,
    /// construct through `Default::default()` (only on cells holding the law's default parameters)
    #[serde(default)]
    pub default_ctor: bool,
    /// non-empty: another object of the same law with these parameters is constructed and sampled a
    /// few times on the thread just before the visit (earlier activity that must not leak)
    #[serde(default)]
    pub pred: Vec<Fb>,
    /// environment of the visit, bit field: 1 = the visited object is constructed BEFORE the
    /// predecessor is sampled (two live objects, used in the other order); 2 = a rejected bulk
    /// request (`sample_matrix(3, 0)`, unwind caught) happens on the thread first; 4 = MVN only: a
    /// second model with the same dimension and variances but other correlations is built first
    #[serde(default)]
    pub env: u8,
    /// allocator fill policy of the run's thread (index into Fill::ALL; 0 = pass)
    #[serde(default)]
    pub fill: u8,
    /// bulk forms only: > 0 = the n draws are pooled from many small bulk calls of this size (for the
    /// N-D form: 1 = one row, 2 = dim rows, 3 = dim + 1 rows per call) instead of one call
    #[serde(default)]
    pub small_bulk: usize,
}

pub const DRAW_BUDGET: u64 = 100_000;

// ---- the regime grid ---------------------------------------------------------------------------

pub fn cells() -> Vec<(&'static str, Vec<f64>)> {
    let mut c: Vec<(&'static str, Vec<f64>)> = vec![];
    for p in [[0., 1.], [10., 20.], [-1000., 1e-3], [5., 1000.], [3., 0.]] {
        c.push(("Normal", p.to_vec()));
    }
    for a in [0.05, 0.2, 1. / 3., 0.5, 0.9, 1., 1.5, 7.3, 120.] {
        for b in [1e-3, 1., 1e3] {
            c.push(("Gamma", vec![a, b]));
        }
    }
    for a in [0.2, 0.5, 1., 2., 40.] {
        for b in [0.2, 0.5, 1., 3., 40.] {
            c.push(("Beta", vec![a, b]));
        }
    }
    for k in [1., 2., 3., 5., 50., 200.] {
        c.push(("ChiSquared", vec![k]));
    }
    for nu in [0.5, 1., 1.5, 2., 2.5, 3., 3.5, 7.9, 30., 30.5, 36., 48., 70., 200.] {
        c.push(("T", vec![nu]));
    }
    for l in [1e-3, 0.5, 1., 5., 9.99, 10., 42., 149., 150., 400., 1e3, 1100., 2000., 1e6, 1e10] {
        c.push(("Poisson", vec![l]));
    }
    for n in [0., 1., 15., 70., 1000.] {
        for p in [0., 1e-3, 0.3, 0.5, 0.7, 0.999, 1.] {
            c.push(("Binomial", vec![n, p]));
        }
    }
    for (n, p) in [(100., 0.3), (100., 0.31), (59., 0.5), (61., 0.5), (100., 0.97), (40., 0.95), (400., 0.995), (2000., 0.999), (2000., 0.02), (300., 0.9), (64., 0.5), (128., 0.5), (2048., 0.5), (4096., 0.5), (4096., 0.25), (40., 0.25), (40., 0.75), (200., 0.625)] {
        c.push(("Binomial", vec![n, p]));
    }
    for p in [[0., 1.], [-2., 6.], [1e3, 1e3 + 1e-3], [5., 5.], [-1e3, 1e3], [0., 1e-17], [3e-300, 5e-300], [-2e-20, 2e-20]] {
        c.push(("Uniform", p.to_vec()));
    }
    for p in [[0., 1.], [-2., 6.], [-1000., 1000.], [7., 7.], [0., 1099511627776.], [-5., -3.], [0., 6917529027641081856.], [-1e18, 1e18], [1., 1e9], [0., 2999999999.], [-7., 500000000.], [0., 4294967295.], [-2147483648., 2147483647.], [1000., 4294968295.], [0., 65535.], [0., 65536.], [0., 2147483647.]] {
        c.push(("DiscreteUniform", p.to_vec()));
    }
    for l in [1e-3, 1., 4., 1e3] {
        c.push(("Exponential", vec![l]));
    }
    for p in [[0., 1.], [-3.5, 1e-3], [10., 1e3]] {
        c.push(("Gumbel", p.to_vec()));
    }
    for a in [0.5, 1., 3.5, 1e3] {
        for m in [1e-3, 1., 1e3] {
            c.push(("Pareto", vec![a, m]));
        }
    }
    for p in [0., 1e-3, 0.3, 0.5, 0.999, 1.] {
        c.push(("Bernoulli", vec![p]));
    }
    // MVN: dimension x covariance scale (the matrix itself is generated per visit)
    for d in 1..=6 {
        for s in [1e-6, 1e-3, 1., 1e4] {
            c.push(("MVN", vec![d as f64, s]));
        }
    }
    for d in [16., 33., 72., 90.] {
        c.push(("MVN", vec![d, 1.]));
    }
    // covariances far below / above unit scale (standard deviations ~1e-9, 1e-12, 1e6): any absolute
    // threshold on the entries (diagonal test, jitter, "is zero" shortcut) shows here
    for (d, s) in [(2., 1e-18), (3., 1e-18), (5., 1e-18), (2., 1e-24), (4., 1e-24), (3., 1e12)] {
        c.push(("MVN", vec![d, s]));
    }
    c
}

pub fn regime(law: &str, p: &[f64]) -> String {
    match law {
        "Gamma" => if p[0] < 1. / 3. { "shape<1/3" } else if p[0] < 1. { "1/3<=shape<1" } else { "shape>=1" }.into(),
        "Beta" => {
            let m = p[0].min(p[1]);
            if m < 1. / 3. { "min_shape<1/3" } else if m < 1. { "1/3<=min_shape<1" } else { "shapes>=1" }.into()
        }
        "ChiSquared" => if p[0] < 2. { "dof<2" } else { "dof>=2" }.into(),
        "T" => if p[0] < 2. / 3. { "dof<2/3" } else if p[0] < 2. { "2/3<=dof<2" } else { "dof>=2" }.into(),
        "Poisson" => if p[0] < 10. { "rate<10" } else if p[0] < 130. { "10<=rate<130" } else { "rate>=130" }.into(),
        "Binomial" => {
            if p[0] == 0. || p[1] == 0. || p[1] == 1. {
                "degenerate".into()
            } else {
                let q = p[1].min(1. - p[1]);
                format!("{}{}", if p[0] * q <= 30. { "inversion" } else { "btpe" }, if p[1] > 0.5 { ",p>0.5" } else { "" })
            }
        }
        "Uniform" | "DiscreteUniform" => if p[0] == p[1] { "equal_bounds" } else { "proper" }.into(),
        "Normal" => if p[1] == 0. { "sigma=0" } else { "sigma>0" }.into(),
        "Bernoulli" => if p[0] == 0. || p[0] == 1. { "degenerate" } else { "proper" }.into(),
        _ => "all".into(),
    }
}

/// a nearby valid parameter point (degenerate cells stay where they are)
fn jitter(law: &str, p: &[f64], r: &mut Sm) -> Vec<f64> {
    let f = |r: &mut Sm| (r.f64() * 0.6 - 0.3).exp();
    let q: Vec<f64> = match law {
        "Normal" => if p[1] == 0. { p.to_vec() } else { vec![p[0] + (r.f64() - 0.5) * p[1], p[1] * f(r)] },
        "Gamma" | "Beta" | "Pareto" => vec![p[0] * f(r), p[1] * f(r)],
        "ChiSquared" => vec![(p[0] + r.below(3) as f64).max(1.)],
        "T" | "Exponential" | "Poisson" => vec![p[0] * f(r)],
        "Gumbel" => vec![p[0] + (r.f64() - 0.5) * p[1], p[1] * f(r)],
        "Uniform" => if p[0] == p[1] { p.to_vec() } else { let w = p[1] - p[0]; vec![p[0] + r.f64() * 0.2 * w, p[1] - r.f64() * 0.2 * w] },
        "DiscreteUniform" => if p[0] == p[1] { p.to_vec() } else { vec![p[0] - r.below(3) as f64, p[1] + r.below(3) as f64] },
        "Binomial" => {
            if p[0] == 0. || p[1] == 0. || p[1] == 1. {
                p.to_vec()
            } else {
                vec![(p[0] + r.below(5) as f64 - 2.).max(1.), (p[1] * f(r)).clamp(1e-4, 0.9999)]
            }
        }
        "Bernoulli" => if p[0] == 0. || p[0] == 1. { p.to_vec() } else { vec![(p[0] * f(r)).clamp(1e-4, 0.9999)] },
        _ => p.to_vec(),
    };
    if super::c18::valid(law, &q) { q } else { p.to_vec() }
}

fn is_discrete(law: &str) -> bool {
    matches!(law, "DiscreteUniform" | "Poisson" | "Binomial" | "Bernoulli")
}

/// degenerate (point-mass) cells of otherwise continuous laws
fn is_point_mass(law: &str, p: &[f64]) -> bool {
    (law == "Normal" && p[1] == 0.) || (law == "Uniform" && p[0] == p[1])
}

pub fn in_support(law: &str, p: &[f64], x: f64) -> Result<(), &'static str> {
    if !x.is_finite() {
        return Err("not_finite");
    }
    let ok = match law {
        "Normal" | "T" | "Gumbel" => true,
        "Gamma" | "ChiSquared" | "Exponential" => x >= 0.0,
        "Beta" => (0.0..=1.0).contains(&x),
        "Pareto" => x >= p[1],
        "Uniform" => x >= p[0] && x <= p[1],
        "DiscreteUniform" => x >= p[0] && x <= p[1],
        "Poisson" => x >= 0.0,
        "Binomial" => x >= 0.0 && x <= p[0],
        "Bernoulli" => x == 0.0 || x == 1.0,
        _ => true,
    };
    if !ok {
        return Err("out_of_support");
    }
    if is_discrete(law) && x.fract() != 0.0 {
        return Err("not_integer");
    }
    Ok(())
}

/// reference CDF F(x) = P(X <= x)
pub fn ref_cdf(law: &str, p: &[f64], x: f64) -> f64 {
    match law {
        "Normal" => {
            if p[1] == 0. {
                if x >= p[0] { 1. } else { 0. }
            } else {
                norm_cdf((x - p[0]) / p[1])
            }
        }
        "Gamma" => gamma_p(p[0], p[1] * x),
        "Beta" => beta_i(p[0], p[1], x),
        "ChiSquared" => gamma_p(p[0] / 2., x / 2.),
        "T" => t_cdf(p[0], x),
        "Pareto" => if x < p[1] { 0. } else { 1. - (p[1] / x).powf(p[0]) },
        "Gumbel" => (-(-(x - p[0]) / p[1]).exp()).exp(),
        "Exponential" => if x <= 0. { 0. } else { -(-p[0] * x).exp_m1() },
        "Uniform" => {
            if p[0] == p[1] {
                if x >= p[0] { 1. } else { 0. }
            } else {
                ((x - p[0]) / (p[1] - p[0])).clamp(0., 1.)
            }
        }
        "DiscreteUniform" => (((x.floor() - p[0] + 1.) / (p[1] - p[0] + 1.))).clamp(0., 1.),
        "Poisson" => pois_cdf(p[0], x),
        "Binomial" => binom_cdf(p[0], p[1], x),
        "Bernoulli" => if x < 0. { 0. } else if x < 1. { 1. - p[0] } else { 1. },
        _ => f64::NAN,
    }
}

pub fn eps_dkw(n: usize) -> f64 {
    ((2.0f64 / 1e-12).ln() / (2.0 * n as f64)).sqrt()
}

fn next_up(x: f64) -> f64 {
    if x.is_nan() || x == f64::INFINITY {
        return x;
    }
    if x == 0.0 {
        return f64::from_bits(1);
    }
    let b = x.to_bits();
    f64::from_bits(if x > 0.0 { b + 1 } else { b - 1 })
}
fn next_down(x: f64) -> f64 {
    -next_up(-x)
}

/// Lower bound of sup |F_n - F| evaluated at (a stride of) the order statistics: sound (never
/// exceeds the true sup), within stride/n of it. `left` = F(x-) for laws with atoms.
/// For continuous laws a returned double stands for the reals within one ulp of it (the sampler
/// rounds), so F_n(v) is compared with the interval [F(v - ulp), F(v + ulp)] and F_n(v-) with
/// [F(v - 2ulp), F(v)]: where the density is unbounded at an edge of the support (Beta with a
/// shape < 1 at 1.0) the mass inside one ulp is visible at n = 2e6 and is not a sampler defect.
pub fn dkw_distance(samples: &mut [f64], cdf: &dyn Fn(f64) -> f64, left: &dyn Fn(f64) -> f64, discrete: bool) -> (f64, f64) {
    let n = samples.len();
    samples.sort_unstable_by(|a, b| a.total_cmp(b));
    let stride = if discrete { 1 } else { (n / 25_000).max(1) };
    let mut worst = 0.0f64;
    let mut at = f64::NAN;
    let mut i = 0usize;
    let mut groups = 0usize;
    let dist = |x: f64, lo: f64, hi: f64| -> f64 {
        if x < lo {
            lo - x
        } else if x > hi {
            x - hi
        } else {
            0.0
        }
    };
    while i < n {
        let v = samples[i];
        let mut j = i + 1;
        while j < n && samples[j] == v {
            j += 1;
        }
        if groups % stride == 0 || j == n {
            let (d1, d2) = if discrete {
                ((j as f64 / n as f64 - cdf(v)).abs(), (i as f64 / n as f64 - left(v)).abs())
            } else {
                let (f0, fm, fp) = (cdf(v), cdf(next_down(v)), cdf(next_up(v)));
                let fmm = cdf(next_down(next_down(v)));
                (dist(j as f64 / n as f64, fm.min(f0), fp.max(f0)), dist(i as f64 / n as f64, fmm.min(f0), f0))
            };
            let d = d1.max(d2);
            if d > worst {
                worst = d;
                at = v;
            }
        }
        groups += 1;
        i = j;
    }
    (worst, at)
}

// ---- MVN helpers -------------------------------------------------------------------------------

fn gen_spd(r: &mut Sm, d: usize, scale: f64) -> Vec<f64> {
    let a: Vec<f64> = (0..d * d).map(|_| r.f64() * 2.0 - 1.0).collect();
    let mut c = vec![0.0; d * d];
    for i in 0..d {
        for j in i..d {
            let mut s = 0.0;
            for k in 0..d {
                s += a[i * d + k] * a[j * d + k];
            }
            if i == j {
                s += 0.25 * d as f64;
            }
            let v = s * scale;
            c[i * d + j] = v;
            c[j * d + i] = v;
        }
    }
    c
}

/// covariances with structure: diagonal, equal correlation, and off-diagonal entries that cancel
/// exactly in sum (any shortcut keyed on a sum or on a single entry must not fire wrongly)
fn gen_structured(r: &mut Sm, d: usize, scale: f64) -> Vec<f64> {
    let mut c = vec![0.0; d * d];
    for i in 0..d {
        c[i * d + i] = scale * (1.0 + (r.below(4) as f64) * 0.5);
    }
    let set = |c: &mut Vec<f64>, i: usize, j: usize, v: f64| {
        c[i * d + j] = v;
        c[j * d + i] = v;
    };
    match r.below(3) {
        0 => {}
        1 => {
            for i in 0..d {
                for j in 0..i {
                    set(&mut c, i, j, 0.3 * scale);
                }
            }
        }
        _ => {
            if d >= 3 {
                let a = 0.5 * scale;
                set(&mut c, 0, 1, a);
                set(&mut c, 0, 2, -a);
                if d >= 5 {
                    set(&mut c, 3, 4, 0.25 * scale);
                    set(&mut c, 1, 4, -0.25 * scale);
                }
            }
        }
    }
    c
}

fn cholesky(c: &[f64], d: usize) -> Option<Vec<f64>> {
    let mut l = vec![0.0; d * d];
    for i in 0..d {
        for j in 0..=i {
            let mut s = c[i * d + j];
            for k in 0..j {
                s -= l[i * d + k] * l[j * d + k];
            }
            if i == j {
                if s <= 0.0 {
                    return None;
                }
                l[i * d + i] = s.sqrt();
            } else {
                l[i * d + j] = s / l[j * d + j];
            }
        }
    }
    Some(l)
}

impl Prop for C03 {
    const ID: &'static str = "C03";
    type Case = Case;

    fn runs(tier: Tier) -> u64 {
        let nc = cells().len() as u64;
        match tier {
            // every cell: 8 fault-free visits + 40 fault-injecting visits
            Tier::Quick => nc * 8 + nc * 40,
            // every cell: 16 fault-free visits at n = 4e6 + 600 fault-injecting visits
            Tier::Thorough => nc * 16 + nc * 600,
        }
    }
    fn chunk(tier: Tier) -> u64 {
        match tier {
            Tier::Quick => 20,
            Tier::Thorough => 16,
        }
    }
    fn cpu_limit_s() -> u32 {
        120
    }

    fn gen(seed: u64, run: u64, tier: Tier) -> Case {
        let mut r = Sm::new(mix3(seed, str_id("C03"), run));
        let cs = cells();
        let nc = cs.len() as u64;
        let clean_visits = if tier == Tier::Quick { 8 } else { 16 };
        let faulty = run >= nc * clean_visits;
        let (law, base) = &cs[(run % nc) as usize];
        let visit = run / nc;
        let mut params = base.clone();
        if *law == "MVN" {
            let d = base[0] as usize;
            let scale = base[1];
            let mut p = vec![d as f64];
            for _ in 0..d {
                p.push((r.f64() - 0.5) * 20.0 * scale.sqrt().max(1e-3));
            }
            // the structured deep visit uses a strongly correlated AR(1) covariance rho^|i-j| (every entry of
            // the Cholesky factor matters there); the other structured visits: diagonal / equicorrelated / cancelling
            let mut cov = if visit + 1 == clean_visits {
                let rho = *r.pick(&[0.9, -0.7, 0.5, 0.97]);
                let mut c = vec![0.0; d * d];
                for i in 0..d {
                    for j in 0..d {
                        c[i * d + j] = scale * f64::powi(rho, (i as i32 - j as i32).abs());
                    }
                }
                c
            } else if visit % 3 == 1 {
                gen_structured(&mut r, d, scale)
            } else {
                gen_spd(&mut r, d, scale)
            };
            if cholesky(&cov, d).is_none() {
                cov = gen_spd(&mut r, d, scale);
            }
            p.extend(cov);
            params = p;
        }
        // a quarter of the visits move off the grid point (same regime neighbourhood), so that a
        // defect tied to a non-grid value is not systematically missed
        if *law != "MVN" && visit % 4 == 3 {
            params = jitter(law, &params, &mut r);
        }
        let seeding = Seeding::gen(&mut r);
        let (n, script) = if faulty {
            let n = *r.pick(&[2_000usize, 5_000, 20_000]);
            let mut script = vec![];
            let nf = 1 + r.below(4);
            for _ in 0..nf {
                let kind = *r.pick(&["rng_zero", "rng_max", "rng_tiny", "rng_half", "rng_tail", "rng_streak", "rng_pair", "rng_zig_edge"]);
                let at = if r.chance(0.3) { r.below(8) } else { r.below(2 * n as u64) };
                if kind == "rng_pair" {
                    // two consecutive extreme outputs (e.g. a rejected draw followed by the largest one)
                    let ex = [0u64, u64::MAX, 1 << 63, 1 << 11, 0xFFFF_FFFF, 0xFFFF_FFFF_0000_0000, 1];
                    script.push(Forced { at, raw: Hx(*r.pick(&ex)), kind: kind.into() });
                    script.push(Forced { at: at + 1, raw: Hx(*r.pick(&ex)), kind: kind.into() });
                } else if kind == "rng_streak" {
                    let raw = *r.pick(&[0u64, u64::MAX, 1 << 63, 0x0000_0000_FFFF_FF7F]);
                    for j in 0..(2 + r.below(6)) {
                        script.push(Forced { at: at + j, raw: Hx(raw), kind: kind.into() });
                    }
                } else {
                    script.push(Forced { at, raw: Hx(fault_raw(kind, &mut r)), kind: kind.into() });
                }
            }
            script.truncate(alea::sim::SCRIPT_MAX);
            (n, script)
        } else {
            let base_n = if tier == Tier::Quick { 200_000 } else { 4_000_000 };
            // the last two fault-free visits of every cell are deep ones (10x the draws, band / sqrt(10)):
            // one on the grid point itself, one off-grid
            let deep = visit + 2 >= clean_visits;
            let base_n = if deep { base_n * 10 } else { base_n };
            // the on-grid deep visit of the three base samplers everything else is built on goes
            // much deeper (5e7 draws quick, 1e8 thorough: bands 5.3e-4 / 3.7e-4)
            let ultra = deep && visit + 2 == clean_visits
                && matches!((*law, base.as_slice()), ("Normal", [m, s]) if *m == 0.0 && *s == 1.0)
                || deep && visit + 2 == clean_visits && matches!((*law, base.as_slice()), ("Uniform", [a, b]) if *a == 0.0 && *b == 1.0)
                || deep && visit + 2 == clean_visits && matches!((*law, base.as_slice()), ("Exponential", [l]) if *l == 1.0);
            let base_n = if ultra { (base_n * 25).min(100_000_000) } else { base_n };
            let base_n = if *law == "MVN" { base_n / (4 * (base[0] as usize).max(4) / 4) } else { base_n };
            // bulk sizes: round numbers, non-round numbers, and multiples of a power-of-two block
            let n = match visit % 4 {
                1 => base_n + 7 + r.below(990) as usize,
                3 => (base_n / 4096 + 1) * 4096,
                // N-D bulk draws: an exact multiple of floor(65536 / d) rows (block height of a blocked bulk path)
                2 if *law == "MVN" => {
                    let blk = (65536 / (base[0] as usize).max(1)).max(1);
                    (base_n / blk).max(1) * blk
                }
                _ => base_n,
            };
            (n, vec![])
        };
        let api = match (visit + run) % 3 {
            0 => Api::Loop,
            1 => Api::SampleN,
            _ => Api::SampleMatrix(*r.pick(&[1usize, 2, 7, 101])),
        };
        // every third visit reaches the parameter point through update() from another cell of the law
        let mut via = vec![];
        if *law != "MVN" && visit % 3 == 2 {
            let others: Vec<&Vec<f64>> = cs.iter().filter(|(l, p)| l == law && p != base).map(|(_, p)| p).collect();
            if !others.is_empty() {
                via = fbs(others[r.below(others.len() as u64) as usize]);
            }
            // Binomial: half of these visits start from the exact mirror image (same n, 1 - p)
            if *law == "Binomial" && params[1] > 0.0 && params[1] < 1.0 && r.chance(0.5) {
                via = fbs(&[params[0], 1.0 - params[1]]);
            }
        }
        let is_default_cell = *law != "MVN" && slice_bits_eq(&params, &super::c18::default_params_pub(law)).is_none();
        let default_ctor = is_default_cell && visit % 2 == 1;
        if default_ctor {
            via.clear();
        }
        let aux = Hx(r.next());
        // every third visit is preceded by a sampled object of the same law: for Binomial the
        // complementary success probability (same n), else another cell of the law
        let mut pred = vec![];
        if *law != "MVN" && visit % 3 == 1 {
            if *law == "Binomial" && params[1] > 0.0 && params[1] < 1.0 {
                pred = fbs(&[params[0], 1.0 - params[1]]);
            } else {
                let others: Vec<&Vec<f64>> = cs.iter().filter(|(l, p)| l == law && p != base).map(|(_, p)| p).collect();
                if !others.is_empty() {
                    pred = fbs(others[r.below(others.len() as u64) as usize]);
                }
            }
        }
        let env = (r.below(2) as u8) | if r.chance(0.2) { 2 } else { 0 } | if visit % 2 == 1 { 4 } else { 0 };
        let fill = if r.chance(0.6) { 0 } else { 1 + r.below(4) as u8 };
        let small_bulk = if !faulty && visit % 4 == 0 && visit + 2 < clean_visits {
            if *law == "MVN" { 1 + r.below(3) as usize } else { *r.pick(&[1usize, 3, 5, 7, 16]) }
        } else {
            0
        };
        let api = if small_bulk > 0 { Api::SampleN } else { api };
        Case { law: law.to_string(), params: fbs(&params), seeding, api, n, script, aux, via, default_ctor, pred, env, fill, small_bulk }
    }

    fn exec(case: &Case, st: &mut Stats) -> Option<Viol> {
        let law = case.law.as_str();
        let p = unfb(&case.params);
        let mut h = H64::new();
        h.s(law);
        h.fs(&p);
        case.seeding.apply();
        if case.fill > 0 {
            crate::alloc_seam::set_policy(crate::alloc_seam::Fill::ALL[(case.fill as usize).min(4)], false, case.aux.0);
            st.inc("config.fill_policy_active");
        }
        if case.env & 2 != 0 {
            // a bulk request that is rejected (a shape with one zero dimension): the unwind is caught
            // and the thread carries on; whatever the library leaves behind must not matter
            st.inc("config.after_rejected_bulk_request");
            let _ = catch(|| compute::distributions::Distribution1D::sample_matrix(&compute::distributions::Uniform::new(0.0, 1.0), 3, 0));
        }
        let script: Vec<(u64, u64)> = case.script.iter().map(|f| (f.at, f.raw.0)).collect();
        alea::sim::set_script(&script);
        let faulty = !script.is_empty();
        st.inc(&format!("law.{}", law));
        st.add("ops", case.n as u64);
        st.inc(&format!("seeding.{}", case.seeding.name()));
        st.inc(if faulty { "config.fault_injecting" } else { "config.fault_free" });
        if law != "MVN" && !cells().iter().any(|(l, q)| *l == law && slice_bits_eq(q, &p).is_none()) {
            st.inc("config.off_grid");
        }
        st.inc(&format!("api.{}", match case.api { Api::Loop => "sample_loop", Api::SampleN => "sample_n", Api::SampleMatrix(_) => "sample_matrix" }));
        let reg = if law == "MVN" { format!("dim{}", p[0]) } else { regime(law, &p) };
        st.inc(&format!("regime.{}.{}", law, reg));
        let verdict = if law == "MVN" { exec_mvn(case, &p, st, &mut h, faulty) } else { exec_1d(case, law, &p, &reg, st, &mut h, faulty) };
        let mask = alea::sim::fired_mask();
        for (i, f) in case.script.iter().enumerate() {
            if mask & (1 << i) != 0 {
                st.inc(&format!("fault.{}", f.kind));
            }
        }
        let draws = alea::sim::draws();
        st.add("rng_draws", draws);
        alea::sim::clear_budget();
        alea::sim::clear_script();
        h.u(draws);
        h.u(verdict.is_some() as u64);
        st.log = h.0;
        let mut d = H64::new();
        d.s(law);
        d.fs(&p[..p.len().min(3)]);
        d.s(case.seeding.name());
        d.u(match case.api { Api::Loop => 0, Api::SampleN => 1, Api::SampleMatrix(r) => 2 + r as u64 });
        let mut kinds: Vec<&str> = case.script.iter().map(|f| f.kind.as_str()).collect();
        kinds.sort();
        kinds.dedup();
        for k in kinds {
            d.s(k);
        }
        d.u(mask.count_ones() as u64);
        st.distinct.push(d.0);
        st.nontrivial = case.n >= 100;
        verdict
    }

    fn shrink(case: &Case) -> Vec<Case> {
        let mut out = vec![];
        if !case.script.is_empty() {
            let mut c = case.clone();
            c.script.clear();
            out.push(c);
            for i in 0..case.script.len() {
                let mut c = case.clone();
                c.script.remove(i);
                out.push(c);
            }
        }
        for m in [100usize, 1_000, 10_000, 200_000] {
            if m < case.n {
                let mut c = case.clone();
                c.n = m;
                c.script.retain(|f| f.at < 4 * m as u64);
                out.push(c);
            }
        }
        if case.api != Api::Loop {
            let mut c = case.clone();
            c.api = Api::Loop;
            out.push(c);
        }
        if !case.via.is_empty() {
            let mut c = case.clone();
            c.via.clear();
            out.push(c);
        }
        if !case.pred.is_empty() {
            let mut c = case.clone();
            c.pred.clear();
            out.push(c);
        }
        for bit in [1u8, 2, 4] {
            if case.env & bit != 0 {
                let mut c = case.clone();
                c.env &= !bit;
                out.push(c);
            }
        }
        if case.fill != 0 {
            let mut c = case.clone();
            c.fill = 0;
            out.push(c);
        }
        if case.small_bulk != 0 {
            let mut c = case.clone();
            c.small_bulk = 0;
            out.push(c);
        }
        if case.default_ctor {
            let mut c = case.clone();
            c.default_ctor = false;
            out.push(c);
        }
        if case.seeding != Seeding::simplest() {
            let mut c = case.clone();
            c.seeding = Seeding::simplest();
            out.push(c);
        }
        // move forced draws to the front
        for i in 0..case.script.len() {
            if case.script[i].at > 0 {
                let mut c = case.clone();
                c.script[i].at = 0;
                out.push(c);
                let mut c = case.clone();
                c.script[i].at /= 2;
                out.push(c);
            }
        }
        out
    }

    fn rule() -> &'static str {
        "case = (distribution, parameter point of the regime grid, seeding mode + seed, API form: sample loop / sample_n / sample_matrix / DistributionND::sample_n, n, forced-draw script). Every regime cell is visited in both tiers: fault-free visits (n = 2e5 quick / 4e6 thorough; DKW band alpha = 1e-12 against an independent reference CDF; support, integrality, shape, per-call draw budget) and fault-injecting visits (n = 2e3..2e4, forced extreme generator outputs; DKW off, everything else on). distinct = (law, parameter point, seeding mode, API form, set of fault kinds, number of forced draws consumed); non-trivial = n >= 100"
    }
    fn assumptions() -> Vec<String> {
        vec![
            "reference CDFs (libm erfc/lgamma, incomplete gamma/beta by series and Lentz continued fractions) are independent of /repo and agree with scipy to 1e-9 on refdata/cdf_table.json (checked before every run)".into(),
            "the distributional clause is decided up to the DKW band eps(n) = sqrt(ln(2/alpha)/(2n)), alpha = 1e-12, evaluated at (a stride of) the order statistics: a sound lower bound of the sup distance".into(),
            "liveness = at most 1e5 raw generator draws per sample() call; loops that spin without drawing are caught by a per-run CPU-time watchdog".into(),
            "forced raw outputs are legal outputs of a uniform u64 generator (probability 2^-64 each per draw)".into(),
        ]
    }
    fn reach(c: &BTreeMap<String, u64>) -> Value {
        let pick = |p: &str| -> BTreeMap<String, u64> {
            c.iter().filter(|(k, _)| k.starts_with(p)).map(|(k, v)| (k.clone(), *v)).collect()
        };
        json!({
            "laws": pick("law."), "regimes": pick("regime."), "api_forms": pick("api."), "seeding_modes": pick("seeding."),
            "configurations": pick("config."), "draws_per_sample_call": pick("dpc."), "checks": pick("check."),
            "regime_cells": cells().len(),
        })
    }
    fn expected_counters(_tier: Tier) -> Vec<String> {
        let mut v: Vec<String> = vec![];
        for (law, p) in cells() {
            let reg = if law == "MVN" { format!("dim{}", p[0]) } else { regime(law, &p) };
            let k = format!("regime.{}.{}", law, reg);
            if !v.contains(&k) {
                v.push(k);
            }
        }
        for k in ["api.sample_loop", "api.sample_n", "api.sample_matrix", "api.small_bulk_calls", "seeding.seed_clock", "seeding.seed_small", "seeding.seed_set", "config.fault_free", "config.fault_injecting", "config.reached_by_update", "config.off_grid", "fault.rng_zero", "fault.rng_max", "fault.rng_tiny", "fault.rng_half", "fault.rng_tail", "fault.rng_streak", "fault.rng_pair", "fault.rng_zig_edge", "config.default_ctor", "config.preceded_by_other_object", "config.two_live_objects", "config.after_rejected_bulk_request", "config.mvn_preceded_by_sibling", "config.fill_policy_active", "config.mvn_structured", "check.dkw", "check.tail_points", "check.bulk_advances_stream", "check.bulk_count_at_block_sizes", "check.mvn_projection", "check.mvn_second_moments", "check.serial_independence", "dpc.Normal.1", "dpc.Normal.2", "dpc.Normal.3+", "dpc.Poisson.4+", "dpc.Binomial.4+", "dpc.Gamma.4+"] {
            v.push(k.to_string());
        }
        v
    }
    fn components() -> Value {
        json!({
            "real": ["compute::distributions: all 13 univariate samplers and MVN (sample, sample_n, sample_matrix, DistributionND::sample_n), constructors"],
            "stub": ["alea -> sim-alea (same generator; clock seeding replaced by simulator-supplied thread_init; draw counter and per-call budget; forced outputs)"]
        })
    }
}

fn dpc_bucket(k: u64) -> &'static str {
    match k {
        0 => "0",
        1 => "1",
        2 => "2",
        3 => "3+",
        _ => "4+",
    }
}

fn exec_1d(case: &Case, law: &str, p: &[f64], reg: &str, st: &mut Stats, h: &mut H64, faulty: bool) -> Option<Viol> {
    let mk = |check: &str, class: &str, detail: String| Some(Viol::new(check, class, detail).k("law", law).k("regime", reg));
    if p.len() != param_names(law).len() {
        return None;
    }
    let via = unfb(&case.via);
    let pred = unfb(&case.pred);
    let sample_pred = |o: &Obj| {
        for _ in 0..5 {
            alea::sim::set_budget(DRAW_BUDGET);
            if catch(|| o.sample()).is_err() {
                break;
            }
        }
        alea::sim::clear_budget();
    };
    let mut pred_obj: Option<Obj> = None;
    if pred.len() == p.len() && super::c18::valid(law, &pred) {
        st.inc("config.preceded_by_other_object");
        if let Ok(o) = catch(|| Obj::new(law, &pred)) {
            if case.env & 1 == 0 {
                sample_pred(&o);
            } else {
                // both objects alive before either is sampled; the predecessor is sampled first
                pred_obj = Some(o);
            }
        }
    }
    let obj = if case.default_ctor && slice_bits_eq(p, &super::c18::default_params_pub(law)).is_none() {
        st.inc("config.default_ctor");
        match catch(|| Obj::default_of(law)) {
            Ok(o) => o,
            Err(m) => return mk("constructor", "valid_rejected", format!("{}::default() panicked: {}", law, m)),
        }
    } else if via.len() == p.len() && super::c18::valid(law, &via) {
        st.inc("config.reached_by_update");
        let mut o = match catch(|| Obj::new(law, &via)) {
            Ok(o) => o,
            Err(m) => return mk("constructor", "valid_rejected", format!("{}::new({:?}) panicked: {}", law, via, m)),
        };
        for _ in 0..3 {
            alea::sim::set_budget(DRAW_BUDGET);
            if catch(|| o.sample()).is_err() {
                break;
            }
        }
        alea::sim::clear_budget();
        if let Err(m) = catch(|| o.update(p)) {
            return mk("constructor", "valid_rejected", format!("{}::new({:?}) then update({:?}) panicked: {}", law, via, p, m));
        }
        o
    } else {
        match catch(|| Obj::new(law, p)) {
            Ok(o) => o,
            Err(m) => return mk("constructor", "valid_rejected", format!("{}::new({:?}) panicked: {}", law, p, m)),
        }
    };
    if let Some(o) = &pred_obj {
        st.inc("config.two_live_objects");
        sample_pred(o);
    }
    let n = match case.api {
        Api::SampleMatrix(r) => (case.n / r.max(1)) * r.max(1),
        _ => case.n,
    };
    let mut xs: Vec<f64> = Vec::with_capacity(n);
    match case.api {
        Api::Loop => {
            let mut hist = [0u64; 5];
            for i in 0..n {
                let d0 = alea::sim::draws();
                alea::sim::set_budget(DRAW_BUDGET);
                match catch(|| obj.sample()) {
                    Ok(x) => xs.push(x),
                    Err(m) => {
                        let class = if is_budget_panic(&m) { "nontermination" } else { "panic" };
                        return mk("sampling_terminates", class, format!("{}({:?}).sample() call #{}: {}", law, p, i, m));
                    }
                }
                let k = alea::sim::draws() - d0;
                hist[match k { 0 => 0, 1 => 1, 2 => 2, 3 => 3, _ => 4 }] += 1;
            }
            for (k, c) in hist.iter().enumerate() {
                st.add(&format!("dpc.{}.{}", law, dpc_bucket(k as u64)), *c);
            }
        }
        Api::SampleN if case.small_bulk > 0 => {
            // the n draws pooled from many small bulk calls: every element of every call must be a draw
            st.inc("api.small_bulk_calls");
            let k = case.small_bulk;
            while xs.len() < n {
                let m = k.min(n - xs.len());
                alea::sim::set_budget(DRAW_BUDGET + 256 * m as u64);
                match catch(|| obj.sample_n(m)) {
                    Ok(v) => {
                        if v.len() != m {
                            return mk("bulk_shape", "wrong_count", format!("sample_n({}) returned {} values", m, v.len()));
                        }
                        xs.extend_from_slice(&v);
                    }
                    Err(e) => {
                        let class = if is_budget_panic(&e) { "nontermination" } else { "panic" };
                        return mk("sampling_terminates", class, format!("{}({:?}).sample_n({}): {}", law, p, m, e));
                    }
                }
            }
        }
        Api::SampleN => {
            alea::sim::set_budget(DRAW_BUDGET + 256 * n as u64);
            let d0 = alea::sim::draws();
            match catch(|| obj.sample_n(n)) {
                Ok(v) => {
                    if v.len() != n {
                        return mk("bulk_shape", "wrong_count", format!("sample_n({}) returned {} values", n, v.len()));
                    }
                    // "n independent draws" from the seeded stream: a bulk call must take its values from
                    // the caller's generator (and advance it), and the next call must continue the stream
                    let varied = v.iter().any(|x| x.to_bits() != v[0].to_bits());
                    if varied && !faulty {
                        st.inc("check.bulk_advances_stream");
                        if alea::sim::draws() == d0 {
                            return mk("bulk_stream", "draws_not_from_callers_stream", format!("{}({:?}).sample_n({}) returned {} varying values without consuming a single draw of the calling thread's generator: the values do not come from the seeded stream", law, p, n, n));
                        }
                        let m = n.min(70_000);
                        alea::sim::set_budget(DRAW_BUDGET + 256 * m as u64);
                        if let Ok(w) = catch(|| obj.sample_n(m)) {
                            if w.len() == m && slice_bits_eq(&w, &v[..m]).is_none() {
                                return mk("bulk_stream", "bulk_calls_repeat", format!("{}({:?}): two consecutive sample_n calls returned the same {} values: the second call does not continue the random stream", law, p, m));
                            }
                        }
                        // "n independent draws" at block-like request sizes (powers of two, their
                        // multiples and neighbours): the count must be exact there too
                        const BLOCKY: [usize; 14] = [64, 1024, 4096, 8192, 16384, 32768, 65536, 131072, 196608, 49152, 65535, 65537, 98304, 1 << 18];
                        let m2 = BLOCKY[(case.aux.0 as usize) % BLOCKY.len()];
                        st.inc("check.bulk_count_at_block_sizes");
                        alea::sim::set_budget(DRAW_BUDGET + 256 * m2 as u64);
                        match catch(|| obj.sample_n(m2)) {
                            Ok(w) => {
                                if w.len() != m2 {
                                    return mk("bulk_shape", "wrong_count", format!("{}({:?}).sample_n({}) returned {} values", law, p, m2, w.len()));
                                }
                            }
                            Err(e) => {
                                let class = if is_budget_panic(&e) { "nontermination" } else { "panic" };
                                return mk("sampling_terminates", class, format!("{}({:?}).sample_n({}): {}", law, p, m2, e));
                            }
                        }
                    }
                    xs = v;
                }
                Err(m) => {
                    let class = if is_budget_panic(&m) { "nontermination" } else { "panic" };
                    return mk("sampling_terminates", class, format!("{}({:?}).sample_n({}): {}", law, p, n, m));
                }
            }
        }
        Api::SampleMatrix(r) => {
            let r = r.max(1);
            let c = n / r;
            alea::sim::set_budget(DRAW_BUDGET + 256 * n as u64);
            let res: Result<Matrix, String> = catch(|| match &obj {
                Obj::Normal(d) => compute::distributions::Distribution1D::sample_matrix(d, r, c),
                Obj::Gamma(d) => compute::distributions::Distribution1D::sample_matrix(d, r, c),
                Obj::Beta(d) => compute::distributions::Distribution1D::sample_matrix(d, r, c),
                Obj::ChiSquared(d) => compute::distributions::Distribution1D::sample_matrix(d, r, c),
                Obj::T(d) => compute::distributions::Distribution1D::sample_matrix(d, r, c),
                Obj::Pareto(d) => compute::distributions::Distribution1D::sample_matrix(d, r, c),
                Obj::Gumbel(d) => compute::distributions::Distribution1D::sample_matrix(d, r, c),
                Obj::Exponential(d) => compute::distributions::Distribution1D::sample_matrix(d, r, c),
                Obj::Uniform(d) => compute::distributions::Distribution1D::sample_matrix(d, r, c),
                Obj::DiscreteUniform(d) => compute::distributions::Distribution1D::sample_matrix(d, r, c),
                Obj::Poisson(d) => compute::distributions::Distribution1D::sample_matrix(d, r, c),
                Obj::Binomial(d) => compute::distributions::Distribution1D::sample_matrix(d, r, c),
                Obj::Bernoulli(d) => compute::distributions::Distribution1D::sample_matrix(d, r, c),
            });
            match res {
                Ok(m) => {
                    if m.nrows != r || m.ncols != c || m.data.len() != r * c {
                        return mk("bulk_shape", "wrong_shape", format!("sample_matrix({}, {}) returned {}x{} with {} elements", r, c, m.nrows, m.ncols, m.data.len()));
                    }
                    xs = m.data.v;
                }
                Err(m) => {
                    let class = if is_budget_panic(&m) { "nontermination" } else { "panic" };
                    return mk("sampling_terminates", class, format!("{}({:?}).sample_matrix({}, {}): {}", law, p, r, c, m));
                }
            }
        }
    }
    alea::sim::clear_budget();
    // per-draw invariants
    for (i, x) in xs.iter().enumerate() {
        if let Err(class) = in_support(law, p, *x) {
            return mk("support", class, format!("{}({:?}) draw #{} of {} = {:e}", law, p, i, xs.len(), x));
        }
    }
    for x in xs.iter().take(64) {
        h.f(*x);
    }
    h.u(xs.len() as u64);
    if faulty || xs.len() < 100 {
        return None;
    }
    let discrete = is_discrete(law);
    let point = is_point_mass(law, p);
    // atoms in a continuous law
    let xs_in_order = if !discrete && !point { xs.clone() } else { vec![] };
    let mut sorted = xs;
    let pv = p.to_vec();
    let lawc = law.to_string();
    let cdf = move |x: f64| ref_cdf(&lawc, &pv, x);
    let pv2 = p.to_vec();
    let lawc2 = law.to_string();
    let left = move |x: f64| if discrete { ref_cdf(&lawc2, &pv2, x - 1.0) } else if point { if x > pv2[0] { 1.0 } else { 0.0 } } else { ref_cdf(&lawc2, &pv2, x) };
    let (d, at) = dkw_distance(&mut sorted, &cdf, &left, discrete || point);
    st.inc("check.dkw");
    let eps = eps_dkw(sorted.len());
    if !(d <= eps) {
        return mk("dkw_band", "dkw_exceeded", format!("{}({:?}), n = {}: sup|F_n - F| >= {:.5} at x = {:e} (band {:.5})", law, p, sorted.len(), d, at, eps));
    }
    // the same comparison of F_n with F at fixed far-tail points, where a pointwise (Bernstein) bound is
    // orders of magnitude tighter than the uniform band: the count of draws <= x is Binomial(n, F(x)).
    // Points are chosen from the reference CDF alone (levels 1e-6 .. 1 - 1e-6), never from the data;
    // a returned double stands for the reals within one ulp of it (counts are judged against
    // F(prev x) .. F(next x)); alpha = 1e-12 shared by all points of the visit.
    if !point {
        st.inc("check.tail_points");
        // order-preserving map double <-> integer (i128 so that differences never overflow)
        let ord = |x: f64| -> i128 { let b = x.to_bits(); if b >> 63 == 1 { -((b & 0x7FFF_FFFF_FFFF_FFFF) as i128) } else { b as i128 } };
        let unord = |k: i128| -> f64 { if k < 0 { f64::from_bits(((-k) as u64) | (1u64 << 63)) } else { f64::from_bits(k as u64) } };
        let nn = sorted.len() as f64;
        let l = (2.0f64 * 32.0 / 1e-12).ln();
        let bern = |pp: f64| (2.0 * nn * pp * (1.0 - pp) * l).sqrt() + l / 1.5 + 1.0;
        for q in [1e-6, 1e-5, 1e-4, 1e-3, 1e-2, 0.99, 0.999, 0.9999, 0.99999, 0.999999] {
            // smallest double x with F(x) >= q, by bisection over the ordered bit patterns
            let (mut lo, mut hi) = (ord(-1e300), ord(1e300));
            if !(cdf(unord(lo)) < q && cdf(unord(hi)) >= q) {
                continue;
            }
            while hi - lo > 1 {
                let mid = lo + (hi - lo) / 2;
                if cdf(unord(mid)) >= q { hi = mid } else { lo = mid }
            }
            let x = unord(hi);
            let x = if discrete { x.ceil() } else { x };
            let (p_lo, p_hi) = if discrete { (cdf(x), cdf(x)) } else { (cdf(unord(ord(x) - 2)), cdf(unord(ord(x) + 2))) };
            if !(p_lo.is_finite() && p_hi.is_finite()) || p_hi < p_lo {
                continue;
            }
            let k = sorted.partition_point(|v| *v <= x) as f64;
            // lower levels: judge the count below x; upper levels: the count above x (same event, smaller p)
            let (obs, e_lo, e_hi, b_lo, b_hi) = if q < 0.5 {
                (k, nn * p_lo, nn * p_hi, bern(p_lo), bern(p_hi))
            } else {
                (nn - k, nn * (1.0 - p_hi), nn * (1.0 - p_lo), bern(1.0 - p_hi), bern(1.0 - p_lo))
            };
            if obs < e_lo - b_lo || obs > e_hi + b_hi {
                return mk("dkw_band", "tail_mass_off", format!(
                    "{}({:?}), n = {}: {} draws {} x = {:e} (level {}), the law puts {:.3} .. {:.3} there (pointwise bound +- {:.1} at alpha 1e-12)",
                    law, p, sorted.len(), obs, if q < 0.5 { "<=" } else { ">" }, x, q, e_lo, e_hi, b_hi.max(b_lo)));
            }
        }
    }
    // serial independence of the n draws: for disjoint pairs at lag 1, 2 and n/2 the events
    // "below the median" must be independent (each pair: probability 1/4; Hoeffding, alpha 1e-12 / 3)
    if !discrete && !point {
        let below: Vec<bool> = xs_in_order.iter().map(|x| ref_cdf(law, p, *x) < 0.5).collect();
        let nn = below.len();
        st.inc("check.serial_independence");
        for lag in [1usize, 2, nn / 2] {
            if lag == 0 || 2 * lag > nn {
                continue;
            }
            // disjoint pairs (i, i+lag): blocks of 2*lag, first half paired with second half
            let mut m = 0u64;
            let mut both = 0u64;
            let mut blk = 0usize;
            while blk + 2 * lag <= nn {
                for i in blk..blk + lag {
                    m += 1;
                    if below[i] && below[i + lag] {
                        both += 1;
                    }
                }
                blk += 2 * lag;
            }
            if m >= 1000 {
                let eps = ((6.0f64 / 1e-12).ln() / (2.0 * m as f64)).sqrt() + 2.0 / m as f64;
                let frac = both as f64 / m as f64;
                if (frac - 0.25).abs() > eps {
                    return mk("independence", "serial_dependence", format!("{}({:?}), n = {}: draws i and i+{} are both below the median in {:.4} of {} disjoint pairs; independent draws give 0.25 +- {:.4}", law, p, nn, lag, frac, m, eps));
                }
            }
        }
    }
    if !discrete && !point {
        let mut run = 1usize;
        let mut worst = 1usize;
        let mut wv = f64::NAN;
        for i in 1..sorted.len() {
            if sorted[i] == sorted[i - 1] {
                run += 1;
                if run > worst {
                    worst = run;
                    wv = sorted[i];
                }
            } else {
                run = 1;
            }
        }
        st.inc("check.atoms");
        // extreme shapes legitimately pile up at the ends of the support through rounding/underflow
        let at_edge = match law {
            "Gamma" | "ChiSquared" | "Exponential" => wv == 0.0,
            "Beta" => wv == 0.0 || wv == 1.0,
            "Pareto" => wv == p[1],
            "Uniform" => wv == p[0] || wv == p[1],
            _ => false,
        };
        if worst >= 6 && !at_edge && (worst as f64) > 2e-6 * sorted.len() as f64 + 5.0 {
            return mk("support", "atom_in_continuous_law", format!("{}({:?}): the value {:e} occurs {} times among {} draws of a continuous law", law, p, wv, worst, sorted.len()));
        }
    }
    None
}

fn exec_mvn(case: &Case, p: &[f64], st: &mut Stats, h: &mut H64, faulty: bool) -> Option<Viol> {
    let d = p[0] as usize;
    let reg = format!("dim{}", d);
    let mk = |check: &str, class: &str, detail: String| Some(Viol::new(check, class, detail).k("law", "MVN").k("regime", &reg));
    if d == 0 || p.len() != 1 + d + d * d {
        return None;
    }
    let mean = p[1..1 + d].to_vec();
    let cov = p[1 + d..].to_vec();
    if d >= 2 && (0..d).all(|i| (0..d).all(|j| i == j || cov[i * d + j] == cov[1] || cov[i * d + j] == 0.0 || cov[i * d + j] == -cov[1] || cov[i * d + j].abs() == cov[1].abs() / 2.0)) {
        st.inc("config.mvn_structured");
    }
    let l = match cholesky(&cov, d) {
        Some(l) => l,
        None => return None,
    };
    if case.env & 4 != 0 && d >= 2 {
        // another model first: same dimension, same variances, correlations of opposite sign where
        // i + j is odd (D C D with D = diag(1, -1, 1, ..): still positive definite); it is sampled once
        st.inc("config.mvn_preceded_by_sibling");
        let mut c2 = cov.clone();
        for i in 0..d {
            for j in 0..d {
                if (i + j) % 2 == 1 {
                    c2[i * d + j] = -c2[i * d + j];
                }
            }
        }
        let m2 = mean.clone();
        if let Ok(sib) = catch(move || MVN::new(m2, Matrix::new(c2, d as i32, d as i32))) {
            alea::sim::set_budget(DRAW_BUDGET);
            let _ = catch(|| sib.sample());
            alea::sim::clear_budget();
        }
    }
    let (mc, cc) = (mean.clone(), cov.clone());
    let mvn = match catch(move || MVN::new(mc, Matrix::new(cc, d as i32, d as i32))) {
        Ok(m) => m,
        Err(m) => return mk("constructor", "valid_rejected", format!("MVN::new(dim {}) panicked on a symmetric positive-definite covariance: {}", d, m)),
    };
    let n = case.n;
    alea::sim::set_budget(DRAW_BUDGET + 256 * (n * d) as u64);
    let data: Vec<f64> = match case.api {
        Api::Loop => {
            let mut out = Vec::with_capacity(n * d);
            for i in 0..n {
                match catch(|| mvn.sample()) {
                    Ok(v) => {
                        if v.len() != d {
                            return mk("bulk_shape", "wrong_count", format!("MVN sample has length {} != {}", v.len(), d));
                        }
                        out.extend_from_slice(&v);
                    }
                    Err(m) => {
                        let class = if is_budget_panic(&m) { "nontermination" } else { "panic" };
                        return mk("sampling_terminates", class, format!("MVN(dim {}).sample() call #{}: {}", d, i, m));
                    }
                }
            }
            out
        }
        _ if case.small_bulk > 0 => {
            st.inc("api.small_bulk_calls");
            let k = match case.small_bulk { 1 => 1, 2 => d, _ => d + 1 };
            let mut out = Vec::with_capacity(n * d);
            let mut rows = 0usize;
            while rows < n {
                let m = k.min(n - rows);
                match catch(|| DistributionND::sample_n(&mvn, m)) {
                    Ok(mm) => {
                        if mm.nrows != m || mm.ncols != d || mm.data.len() != m * d {
                            return mk("bulk_shape", "wrong_shape", format!("DistributionND::sample_n({}) returned {}x{} with {} elements (dim {})", m, mm.nrows, mm.ncols, mm.data.len(), d));
                        }
                        out.extend_from_slice(&mm.data.v);
                        rows += m;
                    }
                    Err(e) => {
                        let class = if is_budget_panic(&e) { "nontermination" } else { "panic" };
                        return mk("sampling_terminates", class, format!("MVN(dim {}) sample_n({}): {}", d, m, e));
                    }
                }
            }
            out
        }
        _ => match catch(|| DistributionND::sample_n(&mvn, n)) {
            Ok(m) => {
                if m.nrows != n || m.ncols != d || m.data.len() != n * d {
                    return mk("bulk_shape", "wrong_shape", format!("DistributionND::sample_n({}) returned {}x{} with {} elements (dim {})", n, m.nrows, m.ncols, m.data.len(), d));
                }
                m.data.v
            }
            Err(m) => {
                let class = if is_budget_panic(&m) { "nontermination" } else { "panic" };
                return mk("sampling_terminates", class, format!("MVN(dim {}) sample_n({}): {}", d, n, m));
            }
        },
    };
    alea::sim::clear_budget();
    if let Some(i) = data.iter().position(|x| !x.is_finite()) {
        return mk("support", "not_finite", format!("MVN(dim {}) draw {} coordinate {} = {:e}", d, i / d, i % d, data[i]));
    }
    for x in data.iter().take(64) {
        h.f(*x);
    }
    if faulty || n < 100 {
        return None;
    }
    // whiten with the harness's own Cholesky factor of the REQUESTED covariance
    let mut z = vec![0.0; n * d];
    for s in 0..n {
        for i in 0..d {
            let mut v = data[s * d + i] - mean[i];
            for k in 0..i {
                v -= l[i * d + k] * z[s * d + k];
            }
            z[s * d + i] = v / l[i * d + i];
        }
    }
    // "the requested covariance": the whitened draws are i.i.d. N(0, I), so for each coordinate the sum
    // of squares is chi-square with n degrees of freedom and for each pair (i, j), i < j, the sum of
    // products is a sum of n independent products of standard normals. Laurent-Massart / Bernstein
    // bounds at alpha = 1e-12 shared by all d (d + 1) / 2 statistics: far sharper than the band on a
    // single coordinate's ECDF when n / d is small (high dimension)
    {
        st.inc("check.mvn_second_moments");
        let nf = n as f64;
        let x = ((d * (d + 1)) as f64 / 1e-12).ln();
        let dev = 2.0 * (nf * x).sqrt() + 2.0 * x;
        for i in 0..d {
            let ss: f64 = (0..n).map(|s| z[s * d + i] * z[s * d + i]).sum();
            if (ss - nf).abs() > dev {
                return mk("dkw_band", "covariance_off", format!("MVN(dim {}), n = {}: whitened coordinate {} has mean square {:.5}; a unit variance gives 1 +- {:.5} (alpha 1e-12): the draws do not have the requested covariance", d, n, i, ss / nf, dev / nf));
            }
        }
        if d <= 40 {
            // products of two independent standard normals are sub-exponential: Bernstein with variance 1
            // and scale 1 per term (|sum| <= sqrt(2 n x) * 1.5 + 3 x is comfortably above the exact bound)
            let devp = 1.5 * (2.0 * nf * x).sqrt() + 3.0 * x;
            for i in 0..d {
                for j in (i + 1)..d {
                    let sp: f64 = (0..n).map(|s| z[s * d + i] * z[s * d + j]).sum();
                    if sp.abs() > devp {
                        return mk("dkw_band", "covariance_off", format!("MVN(dim {}), n = {}: whitened coordinates {} and {} have mean product {:.5}; independence gives 0 +- {:.5} (alpha 1e-12): the draws do not have the requested covariance", d, n, i, j, sp / nf, devp / nf));
                    }
                }
            }
        }
    }
    let eps = eps_dkw(n);
    let std_cdf = |x: f64| norm_cdf(x);
    let mut r = Sm::new(case.aux.0);
    for proj in 0..(d + 8) {
        let w: Vec<f64> = if proj < d {
            (0..d).map(|i| if i == proj { 1.0 } else { 0.0 }).collect()
        } else {
            let mut w: Vec<f64> = (0..d).map(|_| r.f64() * 2.0 - 1.0).collect();
            let nn = w.iter().map(|x| x * x).sum::<f64>().sqrt().max(1e-12);
            w.iter_mut().for_each(|x| *x /= nn);
            w
        };
        let mut col: Vec<f64> = (0..n).map(|s| (0..d).map(|i| w[i] * z[s * d + i]).sum()).collect();
        let (dist, at) = dkw_distance(&mut col, &std_cdf, &std_cdf, false);
        st.inc("check.mvn_projection");
        if !(dist <= eps) {
            return mk("dkw_band", "dkw_exceeded", format!("MVN(dim {}), n = {}: {} {} of the whitened draws is not standard normal: sup|F_n - Phi| >= {:.5} at {:e} (band {:.5})", d, n, if proj < d { "coordinate" } else { "random projection" }, proj, dist, at, eps));
        }
    }
    None
}
