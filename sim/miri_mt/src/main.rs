//! Thread scenarios for C04, C15 and C19 under Miri's seeded pre-emptive scheduler.
//!
//! The properties are stated per call, "for every input / program / random stream"; they must
//! therefore hold whichever other threads of the process use the library at the same time.
//! K threads each execute a deterministic script of library calls (element-wise kernels and
//! reductions; structural operations and constructors; resampling from a per-thread seeded
//! generator). Every thread's results, bit for bit, must equal the single-threaded execution of
//! the same script, under every schedule Miri's scheduler produces (one per -Zmiri-seed; it
//! pre-empts inside library calls). Anything shared between threads inside the library (statics,
//! lazily built tables, scratch buffers, atomics) is thereby exercised; Miri additionally reports
//! data races and reads of uninitialised memory as undefined behaviour.
//!
//! usage: miri_mt <c04|c15|c19>
use compute::linalg::*;
use compute::validation::*;

fn bits(out: &mut Vec<u64>, v: &[f64]) {
    out.push(v.len() as u64);
    out.extend(v.iter().map(|x| x.to_bits()));
}

fn mat(out: &mut Vec<u64>, m: &Matrix) {
    out.push(((m.nrows as u64) << 32) | m.ncols as u64);
    bits(out, m.data().data());
}

fn vals(n: usize, tid: usize, salt: usize) -> Vec<f64> {
    (0..n).map(|i| ((i * 37 + tid * 11 + salt * 5) % 23) as f64 * 0.375 - 3.25 + if i % 5 == 4 { 0.0 } else { 0.015625 * (salt as f64) }).collect()
}

// ---- C04: element-wise kernels, operator forms, maps, reductions -----------------------------------
fn script_c04(tid: usize) -> Vec<u64> {
    let mut out = vec![];
    let lens = [0usize, 1, 7, 8, 9, 17];
    for round in 0..3 {
        let n = lens[(round + tid) % lens.len()];
        let a = Vector::new(vals(n, tid, round));
        let b = Vector::new(vals(n, tid, round + 3));
        let s = 1.5 + tid as f64;
        bits(&mut out, (&a + &b).data());
        bits(&mut out, (&a - &b).data());
        bits(&mut out, (a.clone() * b.clone()).data());
        bits(&mut out, (&a / b.clone()).data());
        bits(&mut out, (&a * s).data());
        bits(&mut out, (s - &a).data());
        bits(&mut out, (s / a.clone()).data());
        bits(&mut out, (-a.clone()).data());
        let mut c = a.clone();
        c += &b;
        c *= s;
        c -= b.clone();
        c /= 0.5;
        bits(&mut out, c.data());
        bits(&mut out, a.sin().data());
        bits(&mut out, a.exp().data());
        bits(&mut out, a.abs().sqrt().data());
        bits(&mut out, a.powi(2).data());
        bits(&mut out, a.powi(3).data());
        bits(&mut out, a.abs().powf(0.5).data());
        bits(&mut out, a.round().data());
        if n > 0 {
            out.push(sum(a.data()).to_bits());
            out.push(dot(a.data(), b.data()).to_bits());
            out.push(norm(a.data()).to_bits());
            out.push(logsumexp(a.data()).to_bits());
            out.push(logmeanexp(b.data()).to_bits());
            out.push(prod(&a.data()[..n.min(6)]).to_bits());
            out.push(a.sum().to_bits());
            out.push(a.norm().to_bits());
        }
        // the same through matrices (n = r x c)
        let r = if n % 3 == 0 && n > 0 { 3 } else { 1 };
        if n > 0 {
            let ma = Matrix::new(vals(n, tid, round), r as i32, (n / r) as i32);
            let mb = Matrix::new(vals(n, tid, round + 3), r as i32, (n / r) as i32);
            mat(&mut out, &(&ma + &mb));
            mat(&mut out, &(ma.clone() * 2.0));
            mat(&mut out, &(3.0 - &mb));
            mat(&mut out, &ma.cos());
            mat(&mut out, &ma.powi(3));
            let mut mc = ma.clone();
            mc -= &mb;
            mc *= 1.25;
            mat(&mut out, &mc);
            out.push(ma.inf_norm().to_bits());
        }
    }
    out
}

// ---- C15: structural operations, constructors, predicates -----------------------------------------
fn script_c15(tid: usize) -> Vec<u64> {
    let mut out = vec![];
    for round in 0..2 {
        let (r, c) = (2 + (tid + round) % 3, 3 + (2 * tid + round) % 4);
        let m = Matrix::new(vals(r * c, tid, round), r as i32, c as i32);
        mat(&mut out, &m.t());
        let mut t = m.clone();
        t.t_mut();
        mat(&mut out, &t);
        mat(&mut out, &m.reshape(c as i32, -1));
        let mut q = m.clone();
        q.reshape_mut(-1, r as i32);
        mat(&mut out, &q);
        mat(&mut out, &m.hcat(m.clone()));
        mat(&mut out, &m.vcat(m.clone()));
        mat(&mut out, &m.hrepeat(2));
        mat(&mut out, &m.vrepeat(3));
        bits(&mut out, m.get_row_as_vector(r - 1).data());
        bits(&mut out, m.get_col_as_vector(c - 1).data());
        bits(&mut out, m.diag().data());
        let mut a = m.clone();
        a.apply_along_row(0, |x| x * 2.0 + 1.0);
        a.apply_along_col(c - 1, |x| -x);
        a.flat_idx_replace(1, 42.0);
        a[[r - 1, 0]] = -7.5;
        mat(&mut out, &a);
        out.push(a.flat_idx(r * c - 1).to_bits());
        bits(&mut out, &row_to_col_major(m.data().data(), r));
        bits(&mut out, &col_to_row_major(m.data().data(), r));
        bits(&mut out, &transpose(m.data().data(), r));
        mat(&mut out, &Vector::new(vals(r * c, tid, 9)).reshape(r as i32, c as i32));
        mat(&mut out, &Matrix::eye(r + 1));
        mat(&mut out, &Matrix::zeros(r, c));
        mat(&mut out, &Matrix::ones(c, r));
        let x = vals(4 + tid, tid, round + 1);
        bits(&mut out, &toeplitz(&x));
        bits(&mut out, &vandermonde(&x, 3));
        bits(&mut out, &design(&vals(6, tid, round), 3));
        bits(&mut out, diag_matrix(&x).data());
        bits(&mut out, linspace(-1.0, 2.0 + tid as f64, 5 + round).data());
        bits(&mut out, arange(0.5, 4.2 + tid as f64, 0.7).data());
        let ang = 0.3 + 0.4 * tid as f64 + round as f64;
        mat(&mut out, &rotation_matrix_cw(ang, Axis::X));
        mat(&mut out, &rotation_matrix_ccw(ang, Axis::Y));
        mat(&mut out, &rotation_matrix_cw(-ang, Axis::Z));
        let sq = Matrix::new(vals(9, tid, round), 3, 3);
        let sym = &sq + &sq.t();
        out.push(((m.is_square() as u64) << 5) | ((sym.is_symmetric() as u64) << 4) | ((sq.is_symmetric() as u64) << 3)
            | ((sq.is_upper_triangular() as u64) << 2) | ((Matrix::eye(3).is_lower_triangular() as u64) << 1) | (sq.close_to(&sq.clone(), 1e-9) as u64));
        out.push(((sq == sq.clone()) as u64) << 1 | (sq == sym) as u64);
    }
    out
}

// ---- C19: resampling from a per-thread seeded generator ---------------------------------------------
fn script_c19(tid: usize) -> Vec<u64> {
    alea::sim::reset(0x5eed_0000 + tid as u64);
    alea::set_seed(77 + 13 * tid as u64);
    let mut out = vec![];
    for (round, n) in [1usize, 5, 12, 3].iter().enumerate() {
        let data = vals(*n, tid, round);
        let tags: Vec<f64> = (0..*n).map(|i| 1000.0 + i as f64).collect();
        for v in bootstrap(&data, 3) {
            bits(&mut out, &v);
        }
        for v in jackknife(&data) {
            bits(&mut out, &v);
        }
        bits(&mut out, &shuffle(&data));
        let (x, y) = shuffle_two(&data, &tags);
        bits(&mut out, &x);
        bits(&mut out, &y);
    }
    out.push(alea::get_seed());
    out
}

fn main() {
    let mode = std::env::args().nth(1).unwrap_or_else(|| "c04".into());
    let script: fn(usize) -> Vec<u64> = match mode.as_str() {
        "c04" => script_c04,
        "c15" => script_c15,
        "c19" => script_c19,
        _ => {
            eprintln!("usage: miri_mt <c04|c15|c19>");
            std::process::exit(2);
        }
    };
    let k = 3;
    let reference: Vec<Vec<u64>> = (0..k).map(script).collect();
    let handles: Vec<_> = (0..k).map(|tid| std::thread::spawn(move || script(tid))).collect();
    let mut bad = None;
    for (tid, h) in handles.into_iter().enumerate() {
        let got = h.join().expect("thread panicked");
        if got != reference[tid] && bad.is_none() {
            let pos = got.iter().zip(&reference[tid]).position(|(a, b)| a != b).unwrap_or(got.len().min(reference[tid].len()));
            bad = Some((tid, pos));
        }
    }
    // and once more on the main thread afterwards: nothing the threads did may linger
    if script(0) != reference[0] && bad.is_none() {
        bad = Some((0, usize::MAX));
    }
    if let Some((tid, pos)) = bad {
        eprintln!("MT-MIRI VIOLATION mode {} thread {} result word {} differs from the single-threaded run of the same script", mode, tid, pos);
        std::process::exit(1);
    }
    println!("MIRI-MT OK mode={} threads={} result_words={}", mode, k, reference.iter().map(|r| r.len()).sum::<usize>());
}
