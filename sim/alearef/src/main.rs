// Reference vectors from the REAL alea 0.2.2 (built without the [patch]); compared by
// `csim selftest alea` with what sim-alea produces with its seam inert.
fn main() {
    let mut seed: u64 = 0x1234_5678_9abc_def1;
    for s in 0..64u64 {
        seed = seed.wrapping_mul(6364136223846793005).wrapping_add(1442695040888963407);
        let sd = if s < 8 { s } else { seed };
        alea::set_seed(sd);
        let mut acc: u64 = 0xcbf29ce484222325;
        let mut mixin = |v: u64| { acc ^= v; acc = acc.wrapping_mul(0x100000001b3); };
        for i in 0..2000u64 {
            match i % 7 {
                0 => mixin(alea::u64()),
                1 => mixin(alea::f64().to_bits()),
                2 => mixin(alea::i64_in_range(-3, 3 + (i as i64)) as u64),
                3 => mixin(alea::u32() as u64),
                4 => mixin(alea::u64_less_than(3 + i * 1_000_003)),
                5 => mixin(alea::f64_in_range(-1.5, 2.5).to_bits()),
                _ => mixin(alea::i32_in_range(-7, 1000) as u64),
            }
        }
        println!("{:016x} {:016x} {:016x}", sd, acc, alea::get_seed());
    }
}
