#!/bin/sh
# tools/r5_process.sh <agent dir> <name prefix> <property> <slot>
# confirm every out/m<i> of a sub-agent (scratch worktree), store it under seeded/, then run the
# property's quick check against it in an isolated slot (tools/iso.sh) and record the outcome.
D="$1"; PFX="$2"; PROP="$3"; SLOT="$4"
for m in "$D"/out/m*; do
  [ -f "$m/patch.diff" ] || continue
  i=$(basename "$m"); NAME="$PFX-$i"
  if [ ! -d /verif/seeded/$NAME ]; then
    /verif/tools/confirm_mutant.sh "$m" "$NAME" "$PROP" 2>&1 | tail -n 1
  fi
  [ -d /verif/seeded/$NAME ] || continue
  out=$(/verif/tools/iso.sh try "$SLOT" /verif/seeded/$NAME/patch.diff "$PROP" quick 2>&1)
  rc=$(echo "$out" | sed -n 's/^rc=//p')
  sigs=$(echo "$out" | sed -n 's/^  signature: //p' | sort -u | head -4 | tr '\n' ';')
  python3 - "/verif/seeded/$NAME/meta.json" "$PROP" quick "$rc" "$sigs" <<'PY'
import json,sys
f,p,tier,rc,sigs=sys.argv[1:6]
m=json.load(open(f))
m['detected_by']=[{"check":f"./check {p} {tier}","exit":int(rc or 2),"caught":rc=="1","signatures":[s for s in sigs.split(';') if s]}]
json.dump(m,open(f,'w'),indent=2)
PY
  echo "RESULT $NAME rc=$rc $sigs"
done
