#!/bin/sh
# tools/iso.sh try <slot> <patch.diff> <ID> [tier]
#   Runs ./check <ID> <tier> against a seeded change WITHOUT touching /repo: slot <slot> is an isolated
#   pair /tmp/iso<slot>/repo (git worktree of /repo HEAD) + /tmp/iso<slot>/verif (rsync copy of /verif whose
#   path dependency points at that worktree). Several slots can run side by side. The registered
#   checks and the evidence always come from /verif against /repo itself; this is a build-time tool
#   (used while /repo is busy with a background run, and for running many seeded changes in parallel).
# tools/iso.sh clean <slot>     remove the slot (worktree, copy, build output)
CMD="$1"; SLOT="$2"
W=/tmp/iso$SLOT
export CARGO_NET_OFFLINE=true
case "$CMD" in
  clean)
    git -C /repo worktree remove --force "$W/repo" 2>/dev/null; rm -rf "$W"; git -C /repo worktree prune; exit 0 ;;
  try)
    P="$3"; ID="$4"; TIER="${5:-quick}"
    mkdir -p "$W"
    if [ ! -d "$W/repo" ]; then git -C /repo worktree add -q --detach "$W/repo" HEAD || exit 2; cp /repo/Cargo.lock "$W/repo/" 2>/dev/null; fi
    git -C "$W/repo" checkout -q --detach "$(git -C /repo rev-parse HEAD)" 2>/dev/null
    git -C "$W/repo" reset -q --hard; git -C "$W/repo" clean -fdq -e target
    mkdir -p "$W/verif"
    rsync -a --delete --exclude .git --exclude target --exclude replays --exclude seeded --exclude evidence /verif/ "$W/verif/"
    for f in sim/csim/Cargo.toml sim/miri_c04/Cargo.toml sim/miri_c18/Cargo.toml sim/miri_mt/Cargo.toml; do
      sed -i "s#path = \"/repo\"#path = \"$W/repo\"#" "$W/verif/$f"
    done
    if [ ! -f "$W/verif/sim/alearef/target/alea_ref.txt" ]; then
      (cd "$W/verif/sim/alearef" && cargo build --release --offline -q && ./target/release/alearef > target/alea_ref.txt) || exit 2
    fi
    if [ "$P" != "none" ]; then
      if ! git -C "$W/repo" apply "$P" 2>/dev/null; then
        if ! git -C "$W/repo" apply --3way "$P" >/dev/null 2>&1; then echo "PATCH-DOES-NOT-APPLY $P"; exit 3; fi
        git -C "$W/repo" reset -q
      fi
    fi
    mkdir -p "$W/out"; rm -f "$W/out"/*.json
    (cd "$W/verif" && CSIM_EVIDENCE_DIR="$W/out" CSIM_REPLAY_DIR="$W/out" ./check "$ID" "$TIER") > "$W/last.out" 2>&1; RC=$?
    grep -E '^(VIOLATION|KNOWN-FINDING|HARNESS-ERROR|NONDETERMINISM|  signature|C[0-9]+ (quick|thorough):)' "$W/last.out" | head -12
    git -C "$W/repo" reset -q --hard; git -C "$W/repo" clean -fdq -e target
    echo "rc=$RC"
    exit $RC ;;
  *) echo "usage: iso.sh try <slot> <patch|none> <ID> [tier] | clean <slot>"; exit 2 ;;
esac
