#!/bin/sh
# tools/run_seeded_par.sh [slots]   every seeded change against the quick check of its property, in
# parallel isolated slots (tools/iso.sh: scratch worktree of /repo HEAD + scratch copy of /verif);
# records the outcome in seeded/<name>/meta.json. Equivalent to run_seeded.sh (which applies each
# patch to /repo itself, one after the other), several times faster.
SLOTS="${1:-8}"
cd /verif || exit 2
if [ -n "$LIST" ]; then cp "$LIST" /tmp/seeded.list; else ls -d seeded/C*/ | sed "s#seeded/##; s#/##" > /tmp/seeded.list; fi
i=0
while [ $i -lt $SLOTS ]; do
  (
    awk -v n=$SLOTS -v k=$i 'NR % n == k' /tmp/seeded.list | while read n; do
      p=$(python3 -c "import json,sys;m=json.load(open(sys.argv[1]));print(m.get('check_property',sys.argv[2][:3]))" "seeded/$n/meta.json" "$n")
      out=$(tools/iso.sh try "s$i" "/verif/seeded/$n/patch.diff" "$p" quick 2>&1)
      rc=$(echo "$out" | sed -n 's/^rc=//p')
      sigs=$(echo "$out" | sed -n 's/^  signature: //p' | sort -u | head -4 | tr '\n' ';')
      python3 - "seeded/$n/meta.json" "$p" quick "$rc" "$sigs" <<'PY'
import json,sys
f,p,tier,rc,sigs=sys.argv[1:6]
m=json.load(open(f))
keep=[d for d in m.get('detected_by',[]) if not d['check'].startswith(f'./check {p} ')]
m['detected_by']=keep+[{"check":f"./check {p} {tier}","exit":int(rc or 2),"caught":rc=="1","signatures":[s for s in sigs.split(';') if s]}]
json.dump(m,open(f,'w'),indent=2)
PY
      echo "$n rc=$rc $sigs"
    done
  ) > /tmp/seeded.par.$i.log 2>&1 &
  i=$((i+1))
done
wait
cat /tmp/seeded.par.*.log | sort
echo "caught: $(cat /tmp/seeded.par.*.log | grep -c 'rc=1')  of $(wc -l < /tmp/seeded.list)"
