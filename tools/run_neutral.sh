#!/bin/sh
# tools/run_neutral.sh  run the quick checks against every behaviour-preserving refactor in
# seeded/neutral/ (they must all stay silent); writes seeded/neutral/results.json
cd /verif || exit 2
OUT=seeded/neutral/results.json; echo '{' > $OUT; FIRST=1; BAD=0
for d in seeded/neutral/*/; do
  n=$(basename "$d")
  case "$n" in lin-*) PROPS="C04 C15";; *) PROPS="C03 C18 C19";; esac
  for p in $PROPS; do
    rc=$(tools/try_mutant.sh "/verif/$d/patch.diff" "$p" quick 2>&1 | sed -n 's/^rc=//p')
    [ "$rc" = "0" ] || BAD=1
    [ $FIRST = 1 ] || echo ',' >> $OUT; FIRST=0
    printf '  "%s %s": {"exit": %s, "silent": %s}' "$n" "$p" "${rc:-2}" "$([ "$rc" = 0 ] && echo true || echo false)" >> $OUT
    echo "$n $p rc=$rc"
  done
done
echo '' >> $OUT; echo '}' >> $OUT
exit $BAD
