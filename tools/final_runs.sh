#!/bin/sh
# tools/final_runs.sh  the thorough command of every claimed property, run in /verif against /repo itself;
# each evidence file is kept under evidence/thorough/; then the quick commands regenerate evidence/<ID>.json.
cd /verif || exit 2
mkdir -p evidence/thorough
for p in C19 C15 C04 C03 C18; do
  /usr/bin/time -f "$p thorough %es" ./check $p thorough 2>&1 | grep -E "VIOLATION|HARNESS|KNOWN|NONDET|thorough|signature"
  cp evidence/$p.json evidence/thorough/$p.json
done
for p in C03 C04 C15 C18 C19; do
  /usr/bin/time -f "$p quick %es" ./check $p quick 2>&1 | grep -E "VIOLATION|HARNESS|KNOWN|NONDET|quick|signature"
done
