#!/opt/veriftools/pyvenv/bin/python
# Generates refdata/cdf_table.json once with scipy; csim's own refmath (which shares no code with
# /repo) is self-checked against it at the start of every C03 check (mismatch > 1e-9 => exit 2).
import json, itertools
from scipy import special as sp, stats as st
rows=[]
for a in [0.05,0.1,0.2,1/3,0.5,0.9,1,1.5,2.5,7.3,25,60,100,120,500,1000.5]:
    for q in [1e-6,1e-3,0.01,0.1,0.3,0.5,0.7,0.9,0.99,0.999999]:
        x=float(sp.gammaincinv(a,q))
        if x>0: rows.append({"fn":"gammap","args":[a,x],"val":float(sp.gammainc(a,x))})
for a,b in itertools.product([0.2,0.5,1,2,7.5,40,300,1000.5],[0.2,0.5,1,2,7.5,40,300,1999.5]):
    for x in [1e-6,0.01,0.1,0.3,0.5,0.7,0.9,0.99,0.999999]:
        rows.append({"fn":"betai","args":[a,b,x],"val":float(sp.betainc(a,b,x))})
for z in [-8,-4,-2.5,-1,-0.1,0,0.3,1,2,3.7,6]:
    rows.append({"fn":"normcdf","args":[z],"val":float(st.norm.cdf(z))})
for nu in [0.5,1,1.5,2,2.5,3,7.9,30,30.5,200]:
    for t in [-50,-5,-1.2,-0.1,0,0.4,1,3,20,1000]:
        rows.append({"fn":"tcdf","args":[nu,t],"val":float(st.t.cdf(t,nu))})
for lam in [1e-3,0.5,5,9.99,10,42,149,150,400,1000]:
    for k in [0,1,2,5,9,10,40,150,160,400,420,1000,1100]:
        rows.append({"fn":"poiscdf","args":[lam,k],"val":float(st.poisson.cdf(k,lam))})
for n,p in [(1,0.3),(15,0.3),(70,0.5),(1000,1e-3),(1000,0.3),(1000,0.999),(100,0.97),(2000,0.999),(400,0.995),(61,0.5)]:
    for k in [0,1,4,10,35,50,97,300,399,999,1000,1998]:
        if k<=n: rows.append({"fn":"binomcdf","args":[n,p,k],"val":float(st.binom.cdf(k,n,p))})
json.dump(rows,open('/verif/refdata/cdf_table.json','w'))
print(len(rows))
