#!/usr/bin/env python3
"""tools/mutsweep.py -- systematic mutation sweep (build-time protocol, not a registered check).

Generates small textual mutants (operator swaps, boundary shifts, constant nudges, deleted
statements, min/max, &&/||) of the source files the five claimed properties are anchored in,
applies each one to a SCRATCH worktree of /repo (never /repo itself), runs the csim quick check of
every property anchored in that file from a SCRATCH copy of /verif whose path dependency points at
the scratch worktree, and records whether the mutant was caught.  Survivors are then run through
the library's own suite (a survivor that the suite kills is uninteresting).  Output: one JSON line
per mutant in <work>/results.jsonl.  Survivors have to be triaged by hand: many are equivalent
(dead code, pdf/pmf bodies that belong to C02, performance-only paths).

usage: mutsweep.py [--work /tmp/msweep] [--seed 1] [--max 400] [--files glob,...] [--props C03,..]
                   [--resume]

Everything lives under --work (default /tmp/msweep) and is removed with `mutsweep.py --clean`.
"""
import argparse, glob, json, os, random, re, shutil, subprocess, sys, time

ap = argparse.ArgumentParser()
ap.add_argument('--work', default='/tmp/msweep')
ap.add_argument('--seed', type=int, default=1)
ap.add_argument('--max', type=int, default=400)
ap.add_argument('--files', default='')
ap.add_argument('--props', default='')
ap.add_argument('--resume', action='store_true')
ap.add_argument('--clean', action='store_true')
ap.add_argument('--list', action='store_true')
ap.add_argument('--per-file', type=int, default=0)
A = ap.parse_args()
W = A.work
REPO = W + '/repo'
VER = W + '/verif'
ENV = dict(os.environ, CARGO_NET_OFFLINE='true')

def sh(cmd, cwd=None, timeout=None, env=None):
    try:
        p = subprocess.run(cmd, shell=True, cwd=cwd, timeout=timeout, env=env or ENV,
                           stdout=subprocess.PIPE, stderr=subprocess.STDOUT, text=True)
        return p.returncode, p.stdout
    except subprocess.TimeoutExpired as e:
        return 124, (e.stdout or '') if isinstance(e.stdout, str) else ''

if A.clean:
    sh(f'git -C /repo worktree remove --force {REPO}')
    shutil.rmtree(W, ignore_errors=True)
    sh('git -C /repo worktree prune')
    sys.exit(0)

# file -> properties whose checks look at it
FILEMAP = {
    'src/linalg/array/vops.rs': ['C04'],
    'src/linalg/array/vec.rs': ['C04', 'C15'],
    'src/linalg/array/matrix.rs': ['C04', 'C15'],
    'src/linalg/utils.rs': ['C04', 'C15'],
    'src/linalg/rotations.rs': ['C15'],
    'src/validation/resample.rs': ['C19'],
    'src/distributions/discreteuniform.rs': ['C19', 'C03', 'C18'],
    'src/distributions/mod.rs': ['C03', 'C18'],
}
for f in ['normal', 'gamma', 'beta', 'chi_squared', 't', 'poisson', 'binomial', 'exponential',
          'gumbel', 'pareto', 'uniform', 'bernoulli']:
    FILEMAP[f'src/distributions/{f}.rs'] = ['C03', 'C18']
FILEMAP['src/distributions/multivariatenormal.rs'] = ['C03']

def setup():
    os.makedirs(W, exist_ok=True)
    if not os.path.isdir(REPO):
        rc, out = sh(f'git -C /repo worktree add -q --detach {REPO} HEAD')
        if rc: sys.exit('worktree: ' + out)
        shutil.copy('/repo/Cargo.lock', REPO + '/Cargo.lock')
    sh(f'git -C {REPO} checkout -q -- . ')
    os.makedirs(VER, exist_ok=True)
    sh(f"rsync -a --delete --exclude .git --exclude target --exclude replays --exclude seeded /verif/ {VER}/")
    for f in ['sim/csim/Cargo.toml', 'sim/miri_c04/Cargo.toml', 'sim/miri_c18/Cargo.toml', 'sim/miri_mt/Cargo.toml']:
        p = f'{VER}/{f}'
        s = open(p).read().replace('path = "/repo"', f'path = "{REPO}"')
        open(p, 'w').write(s)
    rc, out = sh('(cd sim/alearef && cargo build --release --offline -q && ./target/release/alearef > target/alea_ref.txt); cd sim && cargo build --release --offline -q', cwd=VER, timeout=1800)
    if rc: sys.exit('setup build failed: ' + out[-2000:])

STR = re.compile(r'"(?:[^"\\]|\\.)*"')

def mask(line):
    """blank out string literals and trailing // comments so that operators inside are not touched"""
    m = list(line)
    for s in STR.finditer(line):
        for i in range(s.start() + 1, s.end() - 1): m[i] = '\x00'
    t = ''.join(m)
    c = t.find('//')
    if c >= 0: t = t[:c] + '\x00' * (len(t) - c)
    return t

OPS = [
    ('rel', re.compile(r' <= '), ' < '), ('rel', re.compile(r' >= '), ' > '),
    ('rel', re.compile(r' < '), ' <= '), ('rel', re.compile(r' > '), ' >= '),
    ('rel', re.compile(r' == '), ' != '), ('rel', re.compile(r' != '), ' == '),
    ('relflip', re.compile(r' < '), ' > '), ('relflip', re.compile(r' > '), ' < '),
    ('arith', re.compile(r' \+ '), ' - '), ('arith', re.compile(r' - '), ' + '),
    ('arith', re.compile(r' \* '), ' / '), ('arith', re.compile(r' / '), ' * '),
    ('assignop', re.compile(r' \+= '), ' -= '), ('assignop', re.compile(r' -= '), ' += '),
    ('assignop', re.compile(r' \*= '), ' /= '), ('assignop', re.compile(r' /= '), ' *= '),
    ('logic', re.compile(r' && '), ' || '), ('logic', re.compile(r' \|\| '), ' && '),
    ('minmax', re.compile(r'\.min\('), '.max('), ('minmax', re.compile(r'\.max\('), '.min('),
    ('fn', re.compile(r'\.floor\(\)'), '.ceil()'), ('fn', re.compile(r'\.ceil\(\)'), '.floor()'),
    ('fn', re.compile(r'\.sin\(\)'), '.cos()'), ('fn', re.compile(r'\.cos\(\)'), '.sin()'),
    ('fn', re.compile(r'\.ln\(\)'), '.ln_1p()'), ('fn', re.compile(r'\.exp\(\)'), '.exp_m1()'),
    ('fn', re.compile(r'\.sqrt\(\)'), '.cbrt()'), ('fn', re.compile(r'\.abs\(\)'), ''),
    ('bool', re.compile(r'\btrue\b'), 'false'), ('bool', re.compile(r'\bfalse\b'), 'true'),
    ('neg', re.compile(r'if !'), 'if '), ('neg', re.compile(r'\(-'), '('),
    ('swapidx', re.compile(r'\[i\]'), '[j]'), ('swapidx', re.compile(r'\bnrows\b'), 'ncols'),
    ('swapidx', re.compile(r'\bncols\b'), 'nrows'), ('swapidx', re.compile(r'\blower\b'), 'upper'),
    ('swapidx', re.compile(r'\bupper\b'), 'lower'), ('swapidx', re.compile(r'\balpha\b'), 'beta'),
]
INT = re.compile(r'(?<![\w.])(\d+)(?![\w.]|\.\d)')          # bare integer literal
FLT = re.compile(r'(?<![\w.])(\d+\.\d*(?:e-?\d+)?)(?![\w])')  # float literal like 0.5, 1., 2.5e-3

FN_AT = {}
# bodies that belong to other (not claimed) properties: C02 densities/moments, C01/C05/C11/C12 numerics
SKIP_DIST_FNS = {'pdf', 'pmf', 'ln_pdf', 'ln_pmf', 'mean', 'var', 'cdf', 'fmt', 'get_cov_chol', 'get_inv_cov', 'get_cov_det'}
SKIP_LINALG_FNS = {'matmul', 'matmul_blocked', 'xtx', 'solve', 'solve_sys', 'invert_matrix', 'lu', 'cholesky', 'det',
                   'inv', 'lu_solve', 'cholesky_solve', 'fmt', 'broadcast', 'calc_broadcast_shape', 'par_iter', 'from_par_iter'}

def sites_of(path, text):
    lines = text.split('\n')
    out = []
    in_test = False
    cur_fn = ''
    for ln, line in enumerate(lines):
        s = line.strip()
        if s.startswith('#[cfg(test)]'): in_test = True
        if s.startswith('#[test]') and not in_test: in_test = 'one'
        if in_test == 'one' and line.startswith('}'):
            in_test = False
            continue
        if in_test: continue
        mfn = re.search(r'\bfn\s+(\w+)', line)
        if mfn: cur_fn = mfn.group(1)
        FN_AT[(path, ln)] = cur_fn
        if '/distributions/' in path and cur_fn in SKIP_DIST_FNS: continue
        if '/linalg/' in path and cur_fn in SKIP_LINALG_FNS: continue
        if s.startswith('#[cfg(test)]'): in_test = True
        if in_test: continue
        if not s or s.startswith('//') or s.startswith('#[') or s.startswith('use ') or s.startswith('pub use') or s.startswith('mod ') or s.startswith('pub mod'):
            continue
        if s.startswith('///') or s.startswith('//!'): continue
        mk = mask(line)
        numeric_table_line = bool(re.fullmatch(r'[\s\d.eE,+\-_x]+', s)) and len(s) > 12
        for kind, rx, rep in OPS:
            for m in rx.finditer(mk):
                out.append((ln, kind, m.start(), m.end(), rep))
        for m in INT.finditer(mk):
            v = int(m.group(1))
            if numeric_table_line: continue
            out.append((ln, 'int+1', m.start(1), m.end(1), str(v + 1)))
            if v > 0: out.append((ln, 'int-1', m.start(1), m.end(1), str(v - 1)))
        for m in FLT.finditer(mk):
            tok = m.group(1)
            try: v = float(tok)
            except ValueError: continue
            if numeric_table_line:
                if random.random() < 0.02:
                    out.append((ln, 'table', m.start(1), m.end(1), repr(v * 1.01)))
                continue
            if v == 0.0: out.append((ln, 'flt', m.start(1), m.end(1), '1.'))
            elif v == 1.0:
                out.append((ln, 'flt', m.start(1), m.end(1), '0.'))
                out.append((ln, 'flt', m.start(1), m.end(1), '2.'))
            else:
                out.append((ln, 'flt', m.start(1), m.end(1), repr(v * 1.01)))
                out.append((ln, 'flt', m.start(1), m.end(1), repr(v * 2.0)))
        if s.endswith(';') and not re.match(r'(let |return|pub |const |static |type |fn |impl|struct|enum|\}|break|continue)', s) and '{' not in s:
            out.append((ln, 'delete', 0, len(line), ''))
    return out

def main():
    random.seed(A.seed)
    setup()
    files = sorted(FILEMAP)
    if A.files:
        pats = A.files.split(',')
        files = [f for f in files if any(p in f for p in pats)]
    want = set(A.props.split(',')) if A.props else None
    allm = []
    for f in files:
        text = open(f'{REPO}/{f}').read()
        ss = sites_of(f, text)
        random.shuffle(ss)
        if A.per_file: ss = ss[:A.per_file]
        for s in ss: allm.append((f,) + s)
    # interleave files: round-robin so that a prefix of the list covers every file
    byf = {}
    for m in allm: byf.setdefault(m[0], []).append(m)
    order = []
    while any(byf.values()):
        for f in files:
            if byf.get(f): order.append(byf[f].pop())
    order = order[:A.max]
    if A.list:
        for m in order: print(m)
        print(len(allm), 'candidate sites;', len(order), 'selected')
        return
    done = set()
    resf = W + '/results.jsonl'
    if A.resume and os.path.exists(resf):
        for l in open(resf):
            d = json.loads(l); done.add(d['key'])
    res = open(resf, 'a')
    CS = f'{VER}/sim/target/release/csim'
    for (f, ln, kind, a, b, rep) in order:
        text = open(f'{REPO}/{f}').read()
        lines = text.split('\n')
        orig = lines[ln]
        mut = orig[:a] + rep + orig[b:]
        key = f'{f}:{ln + 1}:{kind}:{a}:{rep}'
        if key in done or mut == orig: continue
        lines[ln] = mut
        open(f'{REPO}/{f}', 'w').write('\n'.join(lines))
        rec = {'key': key, 'file': f, 'line': ln + 1, 'fn': FN_AT.get((f, ln), ''), 'kind': kind, 'orig': orig.strip(), 'mut': mut.strip(), 'checks': {}}
        t0 = time.time()
        rc, out = sh('cargo build --release --offline -q', cwd=VER + '/sim', timeout=900)
        if rc != 0:
            rec['status'] = 'no_compile'
        else:
            props = [p for p in FILEMAP[f] if not want or p in want]
            survived_all = True
            for p in props:
                outdir = f'{W}/out'
                shutil.rmtree(outdir, ignore_errors=True); os.makedirs(outdir)
                env = dict(ENV, CSIM_ROOT=VER, CSIM_EVIDENCE_DIR=outdir, CSIM_REPLAY_DIR=outdir)
                rc, out = sh(f'{CS} check {p} quick', cwd=VER, timeout=1500, env=env)
                sig = re.findall(r'^\s+signature: (.*)$', out, re.M)[:3]
                rec['checks'][p] = {'rc': rc, 'sig': sig}
                if rc == 1:
                    survived_all = False
                    break           # caught: no need to run the other properties
                if rc not in (0, 1):
                    rec['checks'][p]['tail'] = out[-400:]
                    survived_all = False
            rec['status'] = 'survived' if survived_all else ('caught' if any(c['rc'] == 1 for c in rec['checks'].values()) else 'harness_error')
            if rec['status'] == 'survived':
                rc, out = sh('cargo test --offline --lib -q 2>&1 | tail -n 15', cwd=REPO, timeout=1200)
                fails = re.findall(r'^test (\S+) \.\.\. FAILED', out, re.M) + re.findall(r'^    (\S+::\S+)$', out, re.M)
                ok = 'test result: ok' in out
                rec['suite'] = 'pass' if ok else 'fail'
                rec['suite_fails'] = sorted(set(fails))[:5]
        rec['wall_s'] = round(time.time() - t0, 1)
        sh(f'git -C {REPO} checkout -q -- .')
        res.write(json.dumps(rec) + '\n'); res.flush()
        print(rec['status'], key, '|', rec['orig'][:70], '=>', rec['mut'][:70], rec.get('suite', ''), flush=True)

main()
