#!/bin/sh
# tools/run_neutral_par.sh [slots]  every behaviour-preserving refactor in seeded/neutral/ against the
# quick checks of the properties it touches (parallel isolated slots); all must stay silent.
# Writes seeded/neutral/results.json.
SLOTS="${1:-6}"
cd /verif || exit 2
rm -f /tmp/neutral.jobs
for d in seeded/neutral/*/; do
  n=$(basename "$d")
  [ -f "$d/patch.diff" ] || continue
  case "$n" in lin-*) PROPS="C04 C15";; *) PROPS="C03 C18 C19";; esac
  for p in $PROPS; do echo "$n $p" >> /tmp/neutral.jobs; done
done
i=0
while [ $i -lt $SLOTS ]; do
  (
    awk -v n=$SLOTS -v k=$i 'NR % n == k' /tmp/neutral.jobs | while read n p; do
      out=$(tools/iso.sh try "n$i" "/verif/seeded/neutral/$n/patch.diff" "$p" quick 2>&1)
      rc=$(echo "$out" | sed -n 's/^rc=//p')
      echo "$n $p rc=$rc $(echo "$out" | sed -n 's/^  signature: //p' | sort -u | head -2 | tr '\n' ';')"
    done
  ) > /tmp/neutral.par.$i.log 2>&1 &
  i=$((i+1))
done
wait
cat /tmp/neutral.par.*.log | sort > /tmp/neutral.all
python3 - <<'PY'
import json
res={}
for l in open('/tmp/neutral.all'):
    parts=l.split()
    if len(parts)<3: continue
    n,p,rc=parts[0],parts[1],parts[2].replace('rc=','')
    res[f"{n} {p}"]={"exit":int(rc) if rc.isdigit() else 2,"silent":rc=="0"}
json.dump(res,open('/verif/seeded/neutral/results.json','w'),indent=1,sort_keys=True)
bad=[k for k,v in res.items() if not v['silent']]
print(len(res),"runs;","not silent:",bad)
PY
