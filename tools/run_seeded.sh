#!/bin/sh
# tools/run_seeded.sh [tier]  run every seeded change against the check of the property it breaks
# (and record the outcome in seeded/<name>/meta.json). /repo is restored after each one.
TIER="${1:-quick}"
cd /verif || exit 2
for d in seeded/C*/; do
  n=$(basename "$d"); p=$(python3 -c "import json,sys;m=json.load(open(sys.argv[1]));print(m.get('check_property',sys.argv[2][:3]))" "$d/meta.json" "$n")
  out=$(tools/try_mutant.sh "/verif/$d/patch.diff" "$p" "$TIER" 2>&1)
  rc=$(echo "$out" | sed -n 's/^rc=//p')
  sigs=$(echo "$out" | sed -n 's/^  signature: //p' | sort -u | head -4 | tr '\n' ';')
  find /verif/sim/target/mutant-out -name '*.json' -delete
  python3 - "$d/meta.json" "$p" "$TIER" "$rc" "$sigs" <<'PY'
import json,sys
f,p,tier,rc,sigs=sys.argv[1:6]
m=json.load(open(f))
m['detected_by']=[{"check":f"./check {p} {tier}","exit":int(rc or 2),"caught":rc=="1","signatures":[s for s in sigs.split(';') if s]}]
json.dump(m,open(f,'w'),indent=2)
PY
  echo "$n rc=$rc $sigs"
done
