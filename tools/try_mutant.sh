#!/bin/sh
# tools/try_mutant.sh <patch.diff> <ID> [tier]   apply a seeded change to /repo, run one check, undo it.
# Prints the check's summary lines; exit code = the check's exit code (1 = caught).
P="$1"; ID="$2"; TIER="${3:-quick}"
cd /repo || exit 2
if [ -n "$(git status --porcelain --untracked-files=no)" ]; then echo "repo not clean"; exit 2; fi
if ! git apply "$P" 2>/dev/null; then
  if ! git apply --3way "$P" >/dev/null 2>&1; then echo "PATCH-DOES-NOT-APPLY $P"; git reset -q --hard HEAD; exit 3; fi
  git reset -q
fi
mkdir -p /verif/sim/target/mutant-out
find /verif/sim/target/mutant-out -name "*.json" -delete 2>/dev/null
cd /verif && CSIM_EVIDENCE_DIR=/verif/sim/target/mutant-out CSIM_REPLAY_DIR=/verif/sim/target/mutant-out ./check "$ID" "$TIER" > /tmp/try_mutant.$$.out 2>&1; RC=$?
grep -E '^(VIOLATION|KNOWN-FINDING|HARNESS-ERROR|  signature|C[0-9]+ (quick|thorough):)' /tmp/try_mutant.$$.out | head -12
rm -f /tmp/try_mutant.$$.out
git -C /repo reset -q --hard HEAD
echo "rc=$RC"
exit $RC
