#!/bin/sh
# tools/confirm_mutant.sh <src dir with patch.diff demo.rs notes.md> <name> <property>
# Confirms in a scratch worktree of /repo (current HEAD) that the change compiles, passes the
# existing suite, and that the demonstration fails with it and passes without it; then stores
# it as /verif/seeded/<name>/ (patch.diff, demo.rs, notes.md, meta.json). Removes the worktree.
SRC="$1"; NAME="$2"; PROP="$3"
WT=/tmp/confirm-$NAME
export CARGO_NET_OFFLINE=true
git -C /repo worktree add -q --detach "$WT" HEAD || exit 2
cp /repo/Cargo.lock "$WT/"
cd "$WT" || exit 2
fail() { echo "CONFIRM-FAIL $NAME: $1"; cd /; git -C /repo worktree remove --force "$WT"; exit 1; }
APPLY=plain
git apply "$SRC/patch.diff" 2>/dev/null || { APPLY=3way; git apply --3way "$SRC/patch.diff" >/dev/null 2>&1 || fail "patch does not apply"; git reset -q; }
git diff > "$WT/rebased.diff"
cargo build --offline -q 2>/dev/null || fail "does not compile"
SUITE=fail
for i in 1 2 3; do
  if cargo test --offline --lib -q >"$WT/suite.log" 2>&1 && cargo test --offline --doc -q >>"$WT/suite.log" 2>&1; then SUITE=pass; break; fi
done
[ "$SUITE" = pass ] || fail "existing suite fails with the change: $(grep -E '^test .* FAILED' $WT/suite.log | head -3)"
mkdir -p tests && cp "$SRC/demo.rs" tests/demo.rs
if timeout 600 cargo test --offline --test demo -q >"$WT/demo_with.log" 2>&1; then fail "demo passes WITH the change"; fi
grep -q "test result: FAILED\|panicked\|timed out\|Terminated" "$WT/demo_with.log" || { timeout 5 true; }
git checkout -q -- src
if ! timeout 600 cargo test --offline --test demo -q >"$WT/demo_without.log" 2>&1; then fail "demo fails WITHOUT the change: $(tail -5 $WT/demo_without.log)"; fi
D=/verif/seeded/$NAME
mkdir -p "$D"
cp "$WT/rebased.diff" "$D/patch.diff"; cp "$SRC/demo.rs" "$D/demo.rs"; cp "$SRC/notes.md" "$D/notes.md" 2>/dev/null
cat > "$D/meta.json" <<EOM
{
  "name": "$NAME",
  "breaks_property": "$PROP",
  "origin": "independent sub-agent given only the property text and a scratch worktree ($SRC)",
  "patch_rebased_onto": "$(git -C /repo rev-parse --short HEAD)",
  "apply_mode": "$APPLY",
  "needs_to_manifest": "see notes.md",
  "confirmed": {
    "compiles": true,
    "existing_suite_passes_with_change": true,
    "demo_fails_with_change": true,
    "demo_passes_without_change": true,
    "commands": ["git apply patch.diff", "cargo test --offline --lib && cargo test --offline --doc", "cargo test --offline --test demo (with / without the change)"]
  },
  "detected_by": []
}
EOM
cd /; git -C /repo worktree remove --force "$WT"
echo "CONFIRMED $NAME"
