#!/bin/sh
# tools/r5_neutral.sh <agent dir> <name prefix (lin-..|dist-..)> <slot>
# store each out/r<i> as seeded/neutral/<prefix>-r<i> after confirming it compiles and passes the suite,
# then run the quick checks (isolated slot); every one must stay silent.
D="$1"; PFX="$2"; SLOT="$3"
export CARGO_NET_OFFLINE=true
case "$PFX" in lin-*) PROPS="C04 C15";; *) PROPS="C03 C18 C19";; esac
for r in "$D"/out/r*; do
  [ -f "$r/patch.diff" ] || continue
  NAME="$PFX-$(basename $r)"
  WT=/tmp/confirm-$NAME
  git -C /repo worktree add -q --detach "$WT" HEAD || continue
  cp /repo/Cargo.lock "$WT/" 2>/dev/null
  OK=1
  (cd "$WT" && git apply "$r/patch.diff") || OK=0
  if [ $OK = 1 ]; then
    S=fail
    for k in 1 2 3; do (cd "$WT" && cargo test --offline --lib -q >suite.log 2>&1 && cargo test --offline --doc -q >>suite.log 2>&1) && { S=pass; break; }; done
    [ $S = pass ] || OK=0
  fi
  git -C /repo worktree remove --force "$WT"
  if [ $OK = 0 ]; then echo "NEUTRAL-REJECTED $NAME (does not apply / suite fails)"; continue; fi
  mkdir -p /verif/seeded/neutral/$NAME; cp "$r/patch.diff" "$r/notes.md" /verif/seeded/neutral/$NAME/ 2>/dev/null
  for p in $PROPS; do
    out=$(/verif/tools/iso.sh try "$SLOT" /verif/seeded/neutral/$NAME/patch.diff "$p" quick 2>&1)
    rc=$(echo "$out" | sed -n 's/^rc=//p')
    echo "NEUTRAL $NAME $p rc=$rc $(echo "$out" | sed -n 's/^  signature: //p' | sort -u | head -3 | tr '\n' ';')"
  done
done
