#!/bin/sh
# Offline build of the simulator from files on disk; also builds the REAL alea 0.2.2 (no patch)
# once to produce the reference vectors sim-alea is compared with.
cd "$(dirname "$0")" || exit 2
ROOT=$(pwd)
export CARGO_NET_OFFLINE=true
set -e
(cd sim/alearef && cargo build --release --offline -q && ./target/release/alearef > target/alea_ref.txt)
(cd sim && cargo build --release --offline -q)
# warm the Miri sysroot and dependency build for the C04 thorough cross-check (best effort)
(cd sim/miri_c18 && MIRIFLAGS="-Zmiri-disable-isolation -Zmiri-deterministic-floats -Zmiri-seed=0" cargo +nightly miri run --offline >/dev/null 2>&1 || true)
(cd sim/miri_mt && MIRIFLAGS="-Zmiri-disable-isolation -Zmiri-deterministic-floats -Zmiri-seed=0" cargo +nightly miri run --offline -- c19 >/dev/null 2>&1 || true)
(cd sim/miri_c04 && MIRIFLAGS="-Zmiri-disable-isolation" cargo +nightly miri run --offline -- --only Vneg 0 >/dev/null 2>&1 || true)
CSIM_ROOT="$ROOT" sim/target/release/csim selftest alea
